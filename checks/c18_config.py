"""C18 - Validated configurations are canonical, frozen and stable under re-validation."""

from __future__ import annotations

import json
from pathlib import Path
from typing import Any

import numpy as np
from pydantic import BaseModel, ValidationError

from harness.core import Collector, check, run_hypothesis
from harness.ropt_util import ConstraintScaler, ObjectiveScaler
from ropt.config.enopt import EnOptConfig
from ropt.transforms import OptModelTransforms, VariableScaler

ID = "C18"
LEVEL = "exploration"
RULE = (
    "Hypothesis strategy for valid configuration dictionaries covering every field of every sub-config: variables "
    "(scalar or per-variable bounds, types, mask), objective/realization weights (un-normalised, zeros, mixed signs, hand-rounded nearly normalised), linear and "
    "non-linear constraints (scalar or per-constraint bounds, filter/estimator maps), optimizer settings incl. options "
    "as dict/list/None, gradient settings (scalar or per-variable magnitudes, ABSOLUTE/RELATIVE, boundary types, sampler "
    "map, seed as int or tuple, thresholds above the counts), filter/estimator/sampler tuples, optional scaling "
    "transforms in the validation context; plus invalid variants (lower>upper, wrong lengths, right length but wrong shape, index arrays of wrong length) that must be rejected. "
    "Oracle: canonical form by formula, generic walk over every reachable model/array (setattr and in-place writes must "
    "raise), values handed in as ndarrays are copied (the caller may go on writing to them), sub-configurations handed in "
    "as validated objects are not changed and give the same result every time, validate(cfg) is cfg, validate(dump) and validate(json(dump)) equal cfg field by field. "
    "Non-trivial: a relative perturbation, a broadcast scalar, a clamped threshold or a transform."
)
ASSUMPTIONS = [
    "dumped forms are re-validated without a transform context (as the external-optimizer hand-off does)",
    "JSON form = json.dumps(model_dump(round_trip=True)) with ndarray -> list and Path -> str, as the external optimizer's encoder does",
    "plain dict/list option containers are not 'configuration objects or arrays' and are not required to be frozen",
]


def to_json(obj: Any) -> Any:  # noqa: ANN401
    def default(o: Any) -> Any:  # noqa: ANN401
        if isinstance(o, np.ndarray):
            return o.tolist()
        if isinstance(o, Path):
            return str(o)
        if isinstance(o, (set, frozenset, tuple)):
            return list(o)
        raise TypeError(type(o))

    return json.loads(json.dumps(obj, default=default))


def walk_models(obj: Any, path: str = "config") -> list[tuple[str, Any]]:  # noqa: ANN401
    out: list[tuple[str, Any]] = []
    if isinstance(obj, BaseModel):
        out.append((path, obj))
        for name in type(obj).model_fields:
            out.extend(walk_models(getattr(obj, name), f"{path}.{name}"))
    elif isinstance(obj, (tuple, list)):
        for i, v in enumerate(obj):
            out.extend(walk_models(v, f"{path}[{i}]"))
    elif isinstance(obj, np.ndarray):
        out.append((path, obj))
    return out


def check_frozen(case: Any, cfg: EnOptConfig) -> None:  # noqa: ANN401
    for path, obj in walk_models(cfg):
        if isinstance(obj, np.ndarray):
            check(not obj.flags.writeable, "array-writable", f"{path} is a writable array", case)
            if obj.size:
                try:
                    obj[...] = obj
                except (ValueError, RuntimeError):
                    pass
                else:
                    check(False, "array-writable", f"in-place write to {path} succeeded", case)  # noqa: FBT003
            continue
        for name in type(obj).model_fields:
            value = getattr(obj, name)
            try:
                setattr(obj, name, value)
            except Exception:  # noqa: BLE001, S112
                continue
            check(False, "model-mutable", f"assignment to {path}.{name} succeeded on a validated configuration", case)  # noqa: FBT003
        for name in type(obj).model_fields:
            value = getattr(obj, name)
            try:
                delattr(obj, name)
            except Exception:  # noqa: BLE001, S112
                continue
            object.__setattr__(obj, name, value) if not hasattr(obj, name) else None
            check(False, "model-mutable", f"'del {path}.{name}' succeeded on a validated configuration", case)  # noqa: FBT003


def equal_configs(case: Any, a: Any, b: Any, path: str, what: str) -> None:  # noqa: ANN401
    if isinstance(a, BaseModel):
        check(type(a) is type(b), f"{what}-differs", f"{path}: type {type(b).__name__} != {type(a).__name__}", case)
        for name in type(a).model_fields:
            equal_configs(case, getattr(a, name), getattr(b, name), f"{path}.{name}", what)
    elif isinstance(a, np.ndarray):
        check(isinstance(b, np.ndarray) and a.shape == b.shape, f"{what}-differs",
              f"{path}: shape {getattr(b, 'shape', None)} != {a.shape}", case)
        same = np.array_equal(a, b) if a.dtype.kind in "biu" else bool(
            np.all((np.abs(a - b) <= 1e-12 * (1 + np.abs(a))) | ((a == b))))
        check(bool(same), f"{what}-differs", f"{path}: {b.tolist()} != {a.tolist()}", case)
    elif isinstance(a, (tuple, list)):
        check(isinstance(b, (tuple, list)) and len(a) == len(b), f"{what}-differs", f"{path}: length differs", case)
        for i, (x, y) in enumerate(zip(a, b)):
            equal_configs(case, x, y, f"{path}[{i}]", what)
    else:
        check(a == b, f"{what}-differs", f"{path}: {b!r} != {a!r}", case)


def context_of(case: dict[str, Any]) -> OptModelTransforms | None:
    if not case["transforms"]:
        return None
    c_n = case["C"]
    return OptModelTransforms(
        variables=VariableScaler(np.array(case["vscale"]), None if case.get("no_offsets") else np.array(case["voff"]))
        if "v" in case["transforms"] else None,
        objectives=ObjectiveScaler(case["oscale"]) if "o" in case["transforms"] else None,
        nonlinear_constraints=ConstraintScaler(case["cscale"]) if "c" in case["transforms"] and c_n else None,
    )


def arr(v: Any, size: int) -> np.ndarray:  # noqa: ANN401
    return np.broadcast_to(np.asarray(v, dtype=np.float64), (size,))


def run_case(case: dict[str, Any]) -> dict[str, Any]:  # noqa: C901, PLR0912, PLR0915
    cfgd = case["config"]
    n, k_n, r_n, l_n, c_n = case["n"], case["K"], case["R"], case["L"], case["C"]
    ctx = context_of(case)
    if case.get("invalid"):
        try:
            EnOptConfig.model_validate(cfgd, context=ctx)
        except (ValidationError, ValueError):
            return {"rejected": True}
        check(False, "invalid-accepted", f"inconsistent configuration accepted ({case['invalid']})", case)  # noqa: FBT003
    try:
        cfg = EnOptConfig.model_validate(cfgd, context=ctx)
    except (ValidationError, ValueError) as exc:
        check(False, "valid-rejected", f"a consistent configuration was rejected: {str(exc).splitlines()[1 if len(str(exc).splitlines()) > 1 else 0][:200]}", case)  # noqa: FBT003
        raise
    # ---- canonical form
    v = cfgd["variables"]
    vs = np.ones(n) if ctx is None or ctx.variables is None else np.array(case["vscale"], dtype=np.float64)
    vo = np.zeros(n) if ctx is None or ctx.variables is None or case.get("no_offsets") else np.array(case["voff"], dtype=np.float64)
    for name, default in (("lower_bounds", -np.inf), ("upper_bounds", np.inf)):
        exp = (arr(v.get(name, default), n) - vo) / vs
        got = getattr(cfg.variables, name)
        check(got.shape == (n,) and bool(np.all((got == exp) | (np.abs(got - exp) <= 1e-12 * (1 + np.abs(exp))))), "broadcast",
              f"variables.{name} = {got.tolist()}, expected {exp.tolist()}", case)
    exp_iv = (np.asarray(v["initial_values"], dtype=np.float64) - vo) / vs
    check(bool(np.allclose(cfg.variables.initial_values, exp_iv, rtol=1e-12, atol=1e-12)), "broadcast", "initial values differ", case)
    if "mask" in v:
        check(cfg.variables.mask.shape == (n,) and bool(np.array_equal(cfg.variables.mask, np.broadcast_to(v["mask"], (n,)))),
              "broadcast", f"mask {cfg.variables.mask.tolist()}", case)
    if "types" in v:
        check(cfg.variables.types.shape == (n,) and bool(np.array_equal(cfg.variables.types, np.broadcast_to(v["types"], (n,)))),
              "broadcast", f"types {cfg.variables.types.tolist()}", case)
    ow = np.asarray(cfgd.get("objectives", {"weights": [1.0]})["weights"], dtype=np.float64)  # (a section left out: documented defaults)
    check(cfg.objectives.weights.shape == (k_n,) and bool(np.allclose(cfg.objectives.weights, ow / ow.sum(), rtol=1e-12, atol=0)),
          "normalize", f"objective weights {cfg.objectives.weights.tolist()} != {(ow / ow.sum()).tolist()}", case)
    check(abs(float(cfg.objectives.weights.sum()) - 1.0) <= 1e-12, "normalize", "objective weights do not sum to one", case)
    rw = np.asarray(cfgd.get("realizations", {"weights": [1.0]})["weights"], dtype=np.float64)
    check(cfg.realizations.weights.shape == (r_n,) and bool(np.allclose(cfg.realizations.weights, rw / rw.sum(), rtol=1e-12, atol=0)),
          "normalize", f"realization weights {cfg.realizations.weights.tolist()}", case)
    rmin = cfgd.get("realizations", {}).get("realization_min_success")
    check(cfg.realizations.realization_min_success == (r_n if rmin is None else min(rmin, r_n)), "clamp",
          f"realization_min_success {cfg.realizations.realization_min_success} for {rmin} / R={r_n}", case)
    g = cfgd.get("gradient", {})
    p_n = g.get("number_of_perturbations", 5)
    pmin = g.get("perturbation_min_success")
    check(cfg.gradient.perturbation_min_success == (p_n if pmin is None else min(pmin, p_n)), "clamp",
          f"perturbation_min_success {cfg.gradient.perturbation_min_success} for {pmin} / P={p_n}", case)
    lbo, ubo = np.asarray(cfg.variables.lower_bounds), np.asarray(cfg.variables.upper_bounds)
    types = np.broadcast_to(np.asarray(g.get("perturbation_types", 1)), (n,))
    mags = arr(g.get("perturbation_magnitudes", 0.005), n)
    exp_m = np.where(types == 2, (ubo - lbo) * mags, mags / vs)  # noqa: PLR2004
    check(cfg.gradient.perturbation_magnitudes.shape == (n,) and
          bool(np.allclose(cfg.gradient.perturbation_magnitudes, exp_m, rtol=1e-12, atol=0)), "magnitudes",
          f"perturbation magnitudes {cfg.gradient.perturbation_magnitudes.tolist()} != {exp_m.tolist()}", case)
    check(cfg.gradient.boundary_types.shape == (n,) and bool(np.array_equal(cfg.gradient.boundary_types,
          np.broadcast_to(g.get("boundary_types", 3), (n,)))), "broadcast", "boundary types not broadcast", case)
    seed = g.get("seed", 1)
    check(cfg.gradient.seed == (tuple(seed) if isinstance(seed, (list, tuple)) else (seed,)), "canonical", f"seed {cfg.gradient.seed}", case)
    if l_n:
        lc = cfgd["linear_constraints"]
        check(cfg.linear_constraints.coefficients.shape == (l_n, n) and cfg.linear_constraints.lower_bounds.shape == (l_n,)
              and cfg.linear_constraints.upper_bounds.shape == (l_n,), "broadcast", "linear constraint shapes", case)
        if ctx is None or ctx.variables is None:
            check(bool(np.array_equal(cfg.linear_constraints.lower_bounds, arr(lc["lower_bounds"], l_n))), "broadcast", "linear lower bounds", case)
    if c_n:
        nc = cfgd["nonlinear_constraints"]
        cs = np.ones(c_n) if ctx is None or ctx.nonlinear_constraints is None else np.asarray(case["cscale"], dtype=np.float64)
        for name in ("lower_bounds", "upper_bounds"):
            exp = np.broadcast_to(np.asarray(nc[name], dtype=np.float64), np.broadcast_shapes(np.shape(nc["lower_bounds"]), np.shape(nc["upper_bounds"])))
            got = getattr(cfg.nonlinear_constraints, name)
            check(got.shape == (c_n,) and bool(np.all((got == exp / cs) | (np.abs(got - exp / cs) <= 1e-12 * (1 + np.abs(exp / cs))))), "broadcast",
                  f"nonlinear {name} = {got.tolist()}", case)
    # ---- frozen
    check_frozen(case, cfg)
    # ---- idempotent
    check(EnOptConfig.model_validate(cfg) is cfg, "revalidate-object", "validating a validated configuration object returned another object", case)
    dump = cfg.model_dump(round_trip=True)
    again = EnOptConfig.model_validate(dump)
    equal_configs(case, cfg, again, "config", "dump-roundtrip")
    check_frozen(case, again)
    again_json = EnOptConfig.model_validate(to_json(dump))
    equal_configs(case, cfg, again_json, "config", "json-roundtrip")
    caller_owned_inputs(case, cfgd, ctx, cfg)
    clamp = (rmin is not None and rmin > r_n) or (pmin is not None and pmin > p_n)
    scalar = any(np.ndim(v.get(k, 0.0)) == 0 for k in ("lower_bounds", "upper_bounds")) or np.ndim(g.get("perturbation_magnitudes", 0.0)) == 0
    return {"relative": bool(np.any(types == 2)), "clamp": clamp, "broadcast": scalar and n > 1, "transform": bool(case["transforms"])}  # noqa: PLR2004


ARRAY_FIELDS = {
    "variables": ("initial_values", "lower_bounds", "upper_bounds", "mask", "types"),
    "objectives": ("weights", "realization_filters", "function_estimators"),
    "realizations": ("weights",),
    "linear_constraints": ("coefficients", "lower_bounds", "upper_bounds"),
    "nonlinear_constraints": ("lower_bounds", "upper_bounds", "realization_filters", "function_estimators"),
    "gradient": ("perturbation_magnitudes", "perturbation_types", "boundary_types", "samplers"),
}


def caller_owned_inputs(case: dict[str, Any], cfgd: dict[str, Any], ctx: Any, cfg: EnOptConfig) -> None:  # noqa: ANN401, C901
    """The caller keeps what it handed in: ndarrays and already validated sub-configurations."""
    import copy

    from ropt.config import enopt as enopt_mod

    # ---- (a) values given as ndarrays the caller goes on using
    with_arrays = copy.deepcopy(cfgd)
    owned: list[tuple[str, np.ndarray]] = []
    for section, names in ARRAY_FIELDS.items():
        for name in names:
            value = with_arrays.get(section, {}).get(name) if isinstance(with_arrays.get(section), dict) else None
            if isinstance(value, (list, tuple)) and len(value) and all(isinstance(x, (int, float, bool, list)) for x in value):
                a = np.array(value)
                if a.dtype.kind in "fbiu":
                    with_arrays[section][name] = a
                    owned.append((f"{section}.{name}", a))
    cfg_a = EnOptConfig.model_validate(with_arrays, context=ctx)
    equal_configs(case, cfg, cfg_a, "config", "array-input")
    for path, a in owned:
        before = a.copy()
        try:
            if a.dtype.kind == "b":
                a[...] = ~a
            elif a.dtype.kind == "f":
                a[...] = np.where(np.isfinite(a), a * 2.0 + 1.0, 0.0)
            else:
                a[...] = a[::-1] + 1
        except ValueError:
            check(False, "input-aliased", f"validation made the caller's own array {path} read-only", case)  # noqa: FBT003
        del before
    equal_configs(case, cfg, cfg_a, "config", "input-aliased")
    # ---- (b) sub-configurations given as validated objects (they are frozen: a later validation must not change them)
    classes = {"variables": "VariablesConfig", "objectives": "ObjectiveFunctionsConfig", "realizations": "RealizationsConfig",
               "linear_constraints": "LinearConstraintsConfig", "nonlinear_constraints": "NonlinearConstraintsConfig",
               "optimizer": "OptimizerConfig", "gradient": "GradientConfig"}
    with_objects = copy.deepcopy(cfgd)
    handed: list[tuple[str, Any, Any]] = []
    for section, cls_name in classes.items():
        if isinstance(with_objects.get(section), dict) and case.get("objects", {}).get(section, True):
            try:
                obj = getattr(enopt_mod, cls_name).model_validate(with_objects[section])
            except (ValidationError, ValueError):
                continue
            with_objects[section] = obj
            handed.append((section, obj, obj.model_copy(deep=True)))
            # a section validated on its own is a configuration object like any other: canonical as far as it can know
            if section == "gradient":
                p_n, pmin = cfgd["gradient"].get("number_of_perturbations", 5), cfgd["gradient"].get("perturbation_min_success")
                check(obj.perturbation_min_success == (p_n if pmin is None else min(pmin, p_n)), "clamp",
                      f"GradientConfig validated on its own: perturbation_min_success {obj.perturbation_min_success} for {pmin} / P={p_n}", case)
            if section == "realizations":
                r_n, rmin = case["R"], cfgd["realizations"].get("realization_min_success")
                check(obj.realization_min_success == (r_n if rmin is None else min(rmin, r_n)), "clamp",
                      f"RealizationsConfig validated on its own: realization_min_success {obj.realization_min_success} for {rmin} / R={r_n}", case)
                check(abs(float(np.sum(obj.weights)) - 1.0) <= 1e-12, "normalize", "RealizationsConfig validated on its own: weights not normalized", case)
            if section == "objectives":
                check(abs(float(np.sum(obj.weights)) - 1.0) <= 1e-12, "normalize", "ObjectiveFunctionsConfig validated on its own: weights not normalized", case)
    try:
        first = EnOptConfig.model_validate(with_objects, context=ctx)
        second = EnOptConfig.model_validate(with_objects, context=ctx)
    except (ValidationError, ValueError):
        first = second = None  # a section validated on its own may be inconsistent with the rest: rejection is fine
    for section, obj, saved in handed:
        equal_configs(case, saved, obj, f"handed-in {section}", "handed-in-object-changed")
    if first is not None:
        equal_configs(case, first, second, "config", "revalidation-differs")
        check_frozen(case, first)


def hypothesis_shard(item: dict[str, Any]) -> Collector:
    from hypothesis import strategies as st

    col = Collector(ID)

    @st.composite
    def maybe_scalar(draw: Any, values: list[Any], size: int) -> Any:  # noqa: ANN401
        if draw(st.booleans()):
            return draw(st.sampled_from(values))
        return [draw(st.sampled_from(values)) for _ in range(size)]

    @st.composite
    def cases(draw: Any) -> dict[str, Any]:  # noqa: ANN401
        n, k_n, r_n = draw(st.integers(1, 4)), draw(st.integers(1, 3)), draw(st.integers(1, 4))
        l_n, c_n = draw(st.integers(0, 2)), draw(st.integers(0, 2))
        f_n, e_n, s_n = draw(st.integers(0, 2)), draw(st.integers(1, 2)), draw(st.integers(1, 2))
        lb = draw(maybe_scalar([-1.0, -5.0, -0.5], n))
        ub = draw(maybe_scalar([1.0, 2.0, 7.5], n))
        finite = draw(st.integers(0, 3)) > 0
        if not finite:
            if draw(st.booleans()):
                lb = -np.inf
            else:
                ub = [np.inf if draw(st.booleans()) else 3.0 for _ in range(n)]
        variables: dict[str, Any] = {"initial_values": [draw(st.sampled_from([0.0, 0.25, -0.25, 0.5])) for _ in range(n)],
                                     "lower_bounds": lb, "upper_bounds": ub}
        if draw(st.booleans()):
            m = draw(maybe_scalar([True, False, True], n))
            variables["mask"] = m
        if draw(st.booleans()):
            variables["types"] = draw(maybe_scalar([1, 2], n))
        rel_ok = finite and np.all(np.isfinite(arr(lb, n))) and np.all(np.isfinite(arr(ub, n)))
        gradient: dict[str, Any] = {}
        if draw(st.booleans()):
            gradient["number_of_perturbations"] = draw(st.integers(1, 6))
        if draw(st.booleans()):
            gradient["perturbation_min_success"] = draw(st.integers(1, 9))
        if draw(st.integers(0, 3)) > 0:
            gradient["perturbation_magnitudes"] = draw(maybe_scalar([0.01, 0.1, 0.5], n))
        if rel_ok and draw(st.booleans()):
            gradient["perturbation_types"] = draw(maybe_scalar([1, 2, 2], n))
        if draw(st.booleans()):
            gradient["boundary_types"] = draw(maybe_scalar([1, 2, 3], n))
        if s_n > 1 or draw(st.booleans()):
            gradient["samplers"] = [draw(st.integers(-1, s_n - 1)) for _ in range(n)]
        if draw(st.booleans()):
            gradient["seed"] = draw(st.one_of(st.integers(0, 99), st.lists(st.integers(0, 99), min_size=1, max_size=3)))
        if draw(st.booleans()):
            gradient["merge_realizations"] = draw(st.booleans())
        objectives: dict[str, Any] = {"weights": [draw(st.sampled_from([0.0, 1.0, 2.0, 0.5, 3.0])) for _ in range(k_n)]}
        if draw(st.integers(0, 3)) == 0 and k_n > 1:  # mixed signs with a positive total are valid weights too
            objectives["weights"][draw(st.integers(0, k_n - 1))] = -0.5
        if sum(objectives["weights"]) <= 0:
            objectives["weights"][0] = 2.0
        if draw(st.integers(0, 4)) == 0:  # hand-rounded, nearly normalised weights (sum within 1e-5 of one)
            objectives["weights"] = [round(1.0 / k_n, 5)] * k_n
            if sum(objectives["weights"]) == 1.0:
                objectives["weights"][0] -= draw(st.sampled_from([1e-5, 3e-6, -2e-6]))
        if f_n and draw(st.booleans()):
            objectives["realization_filters"] = [draw(st.integers(-1, f_n - 1)) for _ in range(k_n)]
        if draw(st.booleans()):
            objectives["function_estimators"] = [draw(st.integers(0, e_n - 1)) for _ in range(k_n)]
        realizations: dict[str, Any] = {"weights": [draw(st.sampled_from([0.0, 1.0, 2.0, 0.25])) for _ in range(r_n)]}
        if draw(st.integers(0, 4)) == 0 and r_n > 1:
            realizations["weights"][draw(st.integers(0, r_n - 1))] = -0.25
        if sum(realizations["weights"]) <= 0:
            realizations["weights"][0] = 1.0
        if draw(st.integers(0, 4)) == 0:
            realizations["weights"] = [round(1.0 / r_n, 5)] * r_n
            if sum(realizations["weights"]) == 1.0:
                realizations["weights"][0] -= draw(st.sampled_from([1e-5, 3e-6, -2e-6]))
        if draw(st.booleans()):
            realizations["realization_min_success"] = draw(st.integers(0, 7))
        optimizer: dict[str, Any] = {}
        if draw(st.booleans()):
            optimizer["method"] = draw(st.sampled_from(["slsqp", "scipy/slsqp", "scipy/default", "external/scipy/slsqp", "differential_evolution"]))
        for key, strat in (("max_iterations", st.integers(1, 50)), ("max_functions", st.integers(1, 50)),
                           ("tolerance", st.sampled_from([0.0, 1e-6, 0.1])), ("speculative", st.booleans()),
                           ("split_evaluations", st.booleans()), ("parallel", st.booleans()),
                           ("options", st.sampled_from([None, {}, {"ftol": 1e-3, "nested": {"a": [1, 2]}}, ["opt one", "opt two"]])),
                           ("output_dir", st.sampled_from([None, "some/dir"])), ("stdout", st.sampled_from([None, "out.txt"]))):
            if draw(st.booleans()):
                optimizer[key] = draw(strat)
        config: dict[str, Any] = {"variables": variables, "objectives": objectives, "realizations": realizations,
                                  "gradient": gradient, "optimizer": optimizer}
        if l_n:
            rows = []
            for _ in range(l_n):
                row = [draw(st.sampled_from([0.0, 1.0, -1.0, 2.0])) for _ in range(n)]
                if not any(row):
                    row[0] = 1.0
                rows.append(row)
            config["linear_constraints"] = {"coefficients": rows, "lower_bounds": draw(maybe_scalar([-1.0, 0.0, -np.inf], l_n)),
                                            "upper_bounds": draw(maybe_scalar([1.0, 4.0, np.inf], l_n))}
        if c_n:
            nlc: dict[str, Any] = {"lower_bounds": draw(maybe_scalar([-1.0, 0.0, -np.inf], c_n)),
                                   "upper_bounds": [draw(st.sampled_from([1.0, 4.0, np.inf])) for _ in range(c_n)]}
            if f_n and draw(st.booleans()):
                nlc["realization_filters"] = [draw(st.integers(-1, f_n - 1)) for _ in range(c_n)]
            if draw(st.booleans()):
                nlc["function_estimators"] = [draw(st.integers(0, e_n - 1)) for _ in range(c_n)]
            config["nonlinear_constraints"] = nlc
        if f_n:
            config["realization_filters"] = [{"method": "sort-objective", "options": {"sort": [0], "first": 0, "last": 0}} for _ in range(f_n)]
        if e_n > 1 or draw(st.booleans()):
            config["function_estimators"] = [{"method": draw(st.sampled_from(["mean", "default/default", "stddev"]))} for _ in range(e_n)]
        if s_n > 1 or draw(st.booleans()):
            config["samplers"] = [{"method": draw(st.sampled_from(["norm", "scipy/default", "sobol"])), "shared": draw(st.booleans()),
                                   "options": draw(st.sampled_from([{}, {"loc": 0.5}]))} for _ in range(s_n)]
        tr = draw(st.sampled_from(["", "", "", "v", "voc", "c", "v"]))
        case: dict[str, Any] = {"no_offsets": draw(st.booleans()), "n": n, "K": k_n, "R": r_n, "L": l_n, "C": c_n, "config": config, "transforms": tr,
                                "vscale": [draw(st.sampled_from([0.5, 2.0, 4.0])) for _ in range(n)],
                                "voff": [draw(st.sampled_from([0.0, 0.25])) for _ in range(n)],
                                "oscale": [draw(st.sampled_from([2.0, 0.5])) for _ in range(k_n)],
                                "cscale": [draw(st.sampled_from([4.0, 0.25])) for _ in range(c_n)]}
        inv = draw(st.sampled_from([*range(24), 3, 5, 5]))
        if inv == 0:
            case["invalid"] = "variable lower bound above upper bound"
            config["variables"]["lower_bounds"] = [9.0] * n
            config["variables"]["upper_bounds"] = [1.0] * n
            config["gradient"].pop("perturbation_types", None)
        elif inv == 1 and n > 1:
            case["invalid"] = "bounds of wrong length"
            config["variables"]["upper_bounds"] = [1.0] * (n + 1)
        elif inv == 2 and c_n:  # noqa: PLR2004
            case["invalid"] = "non-linear lower bound above upper bound"
            config["nonlinear_constraints"]["lower_bounds"] = [5.0] * c_n
            config["nonlinear_constraints"]["upper_bounds"] = [1.0] * c_n
        elif inv == 3 and l_n:  # noqa: PLR2004
            case["invalid"] = "linear coefficient matrix of wrong width"
            config["linear_constraints"]["coefficients"] = [[1.0] * (n + 1) for _ in range(l_n)]
            if draw(st.booleans()):  # (also when a variable scaler gets to see the matrix first)
                case["transforms"] = "v"
        elif inv == 4 and n > 1:  # noqa: PLR2004
            case["invalid"] = "magnitudes of wrong length"
            config["gradient"]["perturbation_magnitudes"] = [0.1] * (n + 1)
        elif inv == 5 and l_n and n > 1:  # noqa: PLR2004
            case["invalid"] = "linear coefficient matrix with a single column (broadcastable, but not n columns)"
            config["linear_constraints"]["coefficients"] = [[1.0] for _ in range(l_n)]
            if draw(st.integers(0, 3)) > 0:
                case["transforms"] = "v"
        elif inv == 6 and n > 1:  # noqa: PLR2004
            case["invalid"] = "boundary types of wrong length"
            config["gradient"]["boundary_types"] = [1] * (n + 1)
        elif inv == 7 and c_n > 1:  # noqa: PLR2004
            case["invalid"] = "non-linear bounds that cannot be broadcast together"
            config["nonlinear_constraints"]["lower_bounds"] = [0.0] * (c_n + 1)
            config["nonlinear_constraints"]["upper_bounds"] = [1.0] * c_n
        elif inv == 8 and n > 1:  # noqa: PLR2004
            case["invalid"] = "bounds given as a column vector (right number of elements, wrong shape)"
            config["variables"]["lower_bounds"] = [[-9.0] for _ in range(n)]
        elif inv == 9 and n > 1:  # noqa: PLR2004
            case["invalid"] = "initial values given as a column vector"
            config["variables"]["initial_values"] = [[v] for v in config["variables"]["initial_values"]]
        elif inv == 10:  # noqa: PLR2004
            case["invalid"] = "weights given as a matrix"
            which = draw(st.sampled_from(["objectives", "realizations"]))
            (objectives if which == "objectives" else realizations)["weights"] = [list((objectives if which == "objectives" else realizations)["weights"])]
        elif inv == 11 and f_n and k_n > 0:  # noqa: PLR2004
            case["invalid"] = "filter indices of wrong length"
            objectives["realization_filters"] = [0] * (k_n + 1)
        elif inv == 12 and n > 1:  # noqa: PLR2004
            case["invalid"] = "sampler indices of wrong length"
            config["gradient"]["samplers"] = [0] * (n + 1)
        elif inv == 13:  # noqa: PLR2004
            case["invalid"] = "realization filter index beyond the configured filters"
            objectives["realization_filters"] = [f_n] * k_n
        elif inv == 14:  # noqa: PLR2004
            case["invalid"] = "function estimator index that does not exist"
            objectives["function_estimators"] = [draw(st.sampled_from([e_n, -1]))] * k_n
        elif inv == 15:  # noqa: PLR2004
            case["invalid"] = "sampler index beyond the configured samplers"
            config["gradient"]["samplers"] = [len(config.get("samplers", [0]))] * n
        elif inv == 17 and n > 1:  # noqa: PLR2004
            case["invalid"] = "lower bound above upper bound for a variable that the mask excludes"
            fixed = draw(st.integers(0, n - 1))
            config["variables"]["mask"] = [i != fixed for i in range(n)]
            config["variables"]["lower_bounds"] = [9.0 if i == fixed else -9.0 for i in range(n)]
            config["variables"]["upper_bounds"] = [1.0 if i == fixed else 9.5 for i in range(n)]
            config["variables"]["initial_values"] = [0.5] * n
            config["gradient"].pop("perturbation_types", None)
        elif inv == 16 and n > 1:  # noqa: PLR2004
            case["invalid"] = "enumeration values given as a matrix"
            field = draw(st.sampled_from(["boundary_types", "perturbation_types", "types"]))
            shape = draw(st.sampled_from(["row", "column"]))
            value = [[1] * n] if shape == "row" else [[1] for _ in range(n)]
            if field == "types":
                config["variables"]["types"] = value
            else:
                config["gradient"][field] = value
        if "invalid" not in case:
            # sections that only say what the defaults say may be left out altogether
            if k_n == 1 and objectives == {"weights": [1.0]} and draw(st.booleans()):
                del config["objectives"]
            if r_n == 1 and realizations == {"weights": [1.0]} and draw(st.booleans()):
                del config["realizations"]
            for name in ("gradient", "optimizer"):
                if not config[name] and draw(st.booleans()):
                    del config[name]
            case["omitted"] = sorted({"objectives", "realizations", "gradient", "optimizer"} - set(config))
        return case

    def body(case: dict[str, Any]) -> None:
        info = run_case(case)
        if info.get("rejected"):
            col.case(case, nontrivial=False, classes=("rejected-invalid",))
            return
        col.case(case, nontrivial=info["relative"] or info["clamp"] or info["broadcast"] or info["transform"], classes=(
            "relative" if info["relative"] else "absolute", "clamped" if info["clamp"] else "unclamped",
            "broadcast" if info["broadcast"] else "full-length", f"transforms={case['transforms'] or 'none'}",
            f"L={case['L']}", f"C={case['C']}", "sections-left-out" if case.get("omitted") else "all-sections-given"))

    run_hypothesis(col, cases(), body, seed=item["seed"], max_examples=item["examples"])
    return col


def shards(tier: str, seed: int) -> list[dict[str, Any]]:
    nshard = 8 if tier == "quick" else 16
    examples = 150 if tier == "quick" else 4000
    return [{"seed": seed * 1000 + i, "examples": examples} for i in range(nshard)]


def run_shard(item: dict[str, Any]) -> Collector:
    return hypothesis_shard(item)


def replay(case: dict[str, Any]) -> None:
    run_case(case)
