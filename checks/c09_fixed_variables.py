"""C09 - Fixed (masked-out) variables never move and never receive a gradient."""

from __future__ import annotations

import itertools
from typing import Any

import numpy as np

from harness.core import Collector, check, guard_call, run_hypothesis
from harness.ropt_util import AffineEvaluator
from harness.scipy_capture import Captured, capture
from ropt.config.enopt import EnOptConfig
from ropt.enums import EventType
from ropt.plan import OptimizerContext, Plan
from ropt.results import FunctionResults, GradientResults
from ropt.transforms import OptModelTransforms, VariableScaler

ID = "C09"
LEVEL = "exploration"
RULE = (
    "all masks for n<=4 (incl. all-free and single-free) x methods {slsqp, l-bfgs-b, nelder-mead, powell, cobyla, DE "
    "serial, DE vectorized, scripted request sequences} x start vector given by the configuration or by run_step(variables=) "
    "(exhaustive over masks x methods x start mode with fixed problem data), plus Hypothesis over initial values, bounds, "
    "1-3 samplers assigned to arbitrary (also fixed) variables, the mask given as list / tuple / bool or int ndarray, VariableScaler, several realizations, and nested plans "
    "whose inner optimization owns the complementary mask. Oracle (trace predicate): in every evaluator row, every "
    "reported variables / perturbed_variables and every vector exchanged with SciPy, fixed entries equal the start value "
    "(nested: the value of the inner result last delivered - also as the start of the next inner run - / the value requested by the outer optimizer), fixed gradient "
    "entries are exactly 0.0, SciPy sees vectors of the free length only. "
    "Non-trivial: >=1 fixed and >=1 free variable and (>=1 gradient or >=3 function evaluations)."
)
ASSUMPTIONS = [
    "exact equality without transforms; with a VariableScaler 8 ulp in the user domain (round trip of the scaling)",
    "inner and outer evaluator calls of nested runs are told apart by the identity of context.config",
]

METHODS = ["slsqp", "l-bfgs-b", "nelder-mead", "powell", "cobyla", "de", "de-vec", "scripted"]


def optimizer_cfg(method: str, budget: int) -> dict[str, Any]:
    if method in ("de", "de-vec"):
        return {"method": "differential_evolution", "parallel": method == "de-vec", "max_functions": budget * 3,
                "options": {"seed": 5, "popsize": 2, "maxiter": 2, "tol": 0.0}}
    if method == "scripted":
        return {"method": "slsqp", "max_functions": 1000}
    return {"method": method, "max_functions": budget, "split_evaluations": method == "l-bfgs-b"}


def make_cfg(case: dict[str, Any], mask: list[bool] | None, method: str) -> dict[str, Any]:
    n = case["n"]
    cfg: dict[str, Any] = {
        "variables": {"initial_values": case["x0"], "lower_bounds": case["lb"], "upper_bounds": case["ub"]},
        "optimizer": optimizer_cfg(method, case["budget"]),
        "realizations": {"weights": case["weights"], **({"realization_min_success": 0} if case.get("fail_perturbations") else {})},
        "gradient": {"number_of_perturbations": 3, "perturbation_magnitudes": 0.05, "seed": case["seed"]},
        "samplers": [{"method": m, "shared": sh} for m, sh in case["samplers"]],
    }
    if method == "cobyla":
        cfg["variables"].pop("lower_bounds"); cfg["variables"].pop("upper_bounds")  # noqa: E702
    if mask is not None:
        kind = case.get("mask_kind", "list")
        cfg["variables"]["mask"] = {"list": mask, "int-list": [int(m) for m in mask], "bool-array": np.array(mask, dtype=bool),
                                    "int-array": np.array(mask, dtype=np.int64), "tuple": tuple(mask)}[kind]
    if case["assign"] is not None:
        cfg["gradient"]["samplers"] = case["assign"]
    if case.get("vtypes") is not None:
        cfg["variables"]["types"] = case["vtypes"]
    if case.get("ptypes") is not None:
        cfg["gradient"]["perturbation_types"] = case["ptypes"]
    for v in case.get("unbounded") or []:  # variables without an upper bound
        if "upper_bounds" in cfg["variables"]:
            cfg["variables"]["upper_bounds"] = [np.inf if i == v else b for i, b in enumerate(cfg["variables"]["upper_bounds"])]
    del n
    return cfg


def close_fixed(got: np.ndarray, exp: np.ndarray, scaled: bool) -> bool:  # noqa: FBT001
    if not scaled:
        return bool(np.array_equal(got, np.broadcast_to(exp, got.shape)))
    e = np.broadcast_to(exp, got.shape)
    return bool(np.all(np.abs(got - e) <= 8 * np.spacing(np.maximum(np.abs(e), 1.0))))


def run_case(case: dict[str, Any]) -> dict[str, Any]:  # noqa: C901, PLR0912, PLR0915
    n = case["n"]
    mask = None if case["mask"] is None else list(case["mask"])
    free = np.ones(n, dtype=bool) if mask is None else np.array(mask, dtype=bool)
    # (the nested function returns what its tracker holds - a user-domain result - as in the documented pattern)
    nested = case["nested"] and mask is not None and not free.all()
    transforms = None
    if case["vscale"] is not None:
        transforms = OptModelTransforms(variables=VariableScaler(np.array(case["vscale"]), np.array(case["voff"])))
    scaled = transforms is not None
    try:
        outer_cfg = EnOptConfig.model_validate(make_cfg(case, mask, case["method"]), context=transforms)
    except ValueError:
        if case.get("ptypes") is not None and case.get("unbounded"):
            return {"fun": 0, "grad": 0, "nested_runs": 0, "rejected": True}  # relative perturbation without finite bounds
        raise
    inner_cfg = None
    if nested:
        inner_cfg = EnOptConfig.model_validate(make_cfg(case, [not m for m in free], "slsqp"), context=transforms)
    r_n = len(case["weights"])
    a = np.array(case["slopes"], dtype=np.float64).reshape(r_n, 1, n)
    ev = AffineEvaluator(a, np.zeros((r_n, 1)), quad=1.0)
    if case.get("fail_perturbations"):  # every perturbed evaluation fails: the (reported) gradient has no successful realization
        ev.fail = {(r, p): [("obj", 0)] for r in range(r_n) for p in range(3)}
    ctx = OptimizerContext(evaluator=ev)
    events: list[tuple[Any, Any]] = []
    ctx.add_observer(EventType.FINISHED_EVALUATION, lambda e: events.append((e.config, e.data)))

    start_user = np.array(case["start"] if case["start"] is not None else case["x0"], dtype=np.float64)
    start_opt = start_user if transforms is None else transforms.variables.to_optimizer(start_user)
    # expected fixed values (user domain), updated while nested runs proceed
    state: dict[str, Any] = {"outer_fixed": start_user.copy(), "inner_fixed": None, "inner_runs": 0, "seen": {}}
    expectations: list[tuple[str, np.ndarray]] = []  # per evaluator call: (who, expected full user vector of fixed entries)

    def hook(call: int, variables: np.ndarray, context: Any) -> None:  # noqa: ANN401, ARG001
        who = "inner" if (inner_cfg is not None and context.config is inner_cfg) else "outer"
        expectations.append((who, (state["inner_fixed"] if who == "inner" else state["outer_fixed"]).copy()))

    ev.hook = hook
    outer_plan = Plan(ctx)
    outer_step = outer_plan.add_step("optimizer")
    inner_plan = None
    if nested:
        inner_plan = Plan(ctx)
        inner_step = inner_plan.add_step("optimizer")
        inner_eval = inner_plan.add_step("evaluator")
        inner_tracker = inner_plan.add_handler("tracker", sources={inner_step, inner_eval}, constraint_tolerance=None)

        def inner_fn(plan: Plan, variables: np.ndarray) -> FunctionResults | None:
            user = variables if transforms is None else transforms.variables.from_optimizer(variables)
            check(close_fixed(np.asarray(user)[~free], state["outer_fixed"][~free], scaled), "nested-start-stale",
                  f"nested run {state['inner_runs']}: started with {np.asarray(user)[~free].tolist()} for the variables the outer "
                  f"optimizer does not own, the value last delivered is {state['outer_fixed'][~free].tolist()}", case)
            state["inner_fixed"] = np.array(user, dtype=np.float64)
            state["inner_runs"] += 1
            if not case.get("keep_inner_best"):  # (otherwise the tracker may hand back the very same result object again)
                plan.set(inner_tracker, "results", None)
            if case.get("inner_shift"):
                # a scripted inner 'optimization': its result differs only slightly from the vector it was started with
                moved = np.array(variables, dtype=np.float64)
                # (towards the middle of the bounds [-1, 2]: the property quantifies over values inside the bounds)
                inward = np.where(np.asarray(user, dtype=np.float64)[~free] > 0.5, -1.0, 1.0)  # noqa: PLR2004
                moved[~free] += inward * abs(case["inner_shift"]) * (1.0 + np.abs(moved[~free]))
                plan.set(inner_tracker, "results", None)
                plan.run_step(inner_eval, config=inner_cfg, transforms=transforms, variables=moved)
            else:
                plan.run_step(inner_step, config=inner_cfg, transforms=transforms, variables=variables)
            res = plan.get(inner_tracker, "results")
            if res is not None:
                first = state["seen"].setdefault(id(res), (res, np.array(res.evaluations.variables, dtype=np.float64)))
                check(bool(np.array_equal(first[1], np.asarray(res.evaluations.variables))), "delivered-result-changed",
                      f"the result held by the inner tracker showed variables {first[1].tolist()} when it was first delivered and shows "
                      f"{np.asarray(res.evaluations.variables).tolist()} now", case)
                state["outer_fixed"] = first[1].copy()
            return res

        inner_plan.add_function(inner_fn)

    def driver(cap: Captured) -> None:
        if case["method"] != "scripted" or len(cap.kwargs["x0"]) != int(free.sum()):
            return
        kw = cap.kwargs
        pts = np.array(case["script_points"], dtype=np.float64).reshape(-1, n)
        for kind, p_i in case["script"]:
            x = pts[p_i % len(pts)][free].copy()
            if transforms is not None:
                x = transforms.variables.to_optimizer(pts[p_i % len(pts)])[free].copy()
            (kw["fun"] if kind == "f" else kw["jac"])(x)

    with capture(driver, passthrough=case["method"] != "scripted") as cap:
        outer_plan.run_step(outer_step, config=outer_cfg, transforms=transforms,
                            variables=None if case["start"] is None else start_opt, nested_optimization=inner_plan)
    # what the nested plan delivered (and its own handlers hold) still shows the variables it was delivered with
    for res, snapshot in state["seen"].values():
        check(bool(np.array_equal(snapshot, np.asarray(res.evaluations.variables))), "delivered-result-changed",
              f"a result delivered by the nested plan showed variables {snapshot.tolist()} when it was delivered and shows "
              f"{np.asarray(res.evaluations.variables).tolist()} after the outer run", case)
    n_free_outer, n_free_inner = int(free.sum()), int((~free).sum())
    for shape in cap.shapes:
        check(shape[0] in (n_free_outer, n_free_inner) and shape[1] == shape[0], "backend-length",
              f"SciPy was called with x0 of length {shape[0]} and an argument of shape {shape[1:]} "
              f"(free variables: {n_free_outer})", case)
    # ---- evaluator rows
    fun_evals = grad_evals = 0
    for call, (who, fixed_exp) in zip(ev.calls, expectations):
        fixed = ~free if who == "outer" else free
        rows = call["variables"]
        fun_evals += int(np.any(call["perturbations"] < 0))
        grad_evals += int(np.any(call["perturbations"] >= 0))
        if fixed.any():
            check(close_fixed(rows[:, fixed], fixed_exp[fixed], scaled), "evaluator-row-moved",
                  f"{who} evaluator call: fixed variables {np.where(fixed)[0].tolist()} received {rows[:, fixed].tolist()}, "
                  f"expected {fixed_exp[fixed].tolist()} in every row (perturbation labels {call['perturbations'].tolist()})", case)
    # ---- reported results
    for config, data in events:
        who = "inner" if (inner_cfg is not None and config is inner_cfg) else "outer"
        fixed = ~free if who == "outer" else free
        if not fixed.any():
            continue
        for res in data["results"]:
            v = np.asarray(res.evaluations.variables)
            if isinstance(res, GradientResults):
                pv = np.asarray(res.evaluations.perturbed_variables)
                check(close_fixed(pv[..., fixed], v[fixed], scaled), "result-perturbed-moved",
                      f"{who}: perturbed_variables of fixed entries {pv[..., fixed].tolist()} differ from the unperturbed {v[fixed].tolist()}", case)
                if res.gradients is not None:
                    for name in ("weighted_objective", "objectives", "constraints"):
                        g = getattr(res.gradients, name)
                        if g is not None:
                            check(bool(np.all(np.asarray(g)[..., fixed] == 0.0)), "fixed-gradient-nonzero",
                                  f"{who}: gradients.{name} has non-zero entries for fixed variables: {np.asarray(g).tolist()}", case)
            if who == "outer" and not nested:
                check(close_fixed(v[fixed], start_user[fixed], scaled), "result-moved",
                      f"reported variables {v.tolist()}: fixed entries differ from the start values {start_user[fixed].tolist()}", case)
    return {"fun": fun_evals, "grad": grad_evals, "nested_runs": state["inner_runs"]}


def default_case(n: int, mask: list[bool] | None, method: str, start_mode: str) -> dict[str, Any]:
    x0 = [0.2 + 0.1 * i for i in range(n)]
    return {"n": n, "mask": mask, "method": method, "x0": x0, "lb": [-1.0] * n, "ub": [2.0] * n,
            "start": None if start_mode == "config" else [0.7 - 0.15 * i for i in range(n)], "budget": 5, "weights": [1.0, 1.0],
            "seed": 3, "samplers": [["norm", False]], "assign": None, "slopes": [0.3 * ((i % 3) - 1) for i in range(2 * n)],
            "vscale": None, "voff": None, "nested": False, "script": [["f", 0], ["g", 1], ["f", 1], ["g", 0], ["f", 2]],
            "script_points": [0.1 * ((3 * i) % 7) for i in range(3 * n)]}


def exhaustive_shard(item: dict[str, Any]) -> Collector:
    col = Collector(ID)
    n = item["n"]
    for mask in itertools.product([True, False], repeat=n):
        if not any(mask):
            continue
        for method in METHODS:
            variants = [("config", False, False), ("argument", False, False)]
            if method in ("slsqp", "nelder-mead") and not all(mask):
                variants += [("config", True, False), ("argument", True, False), ("config", True, True), ("argument", True, True)]
            for start_mode, nested, scaled_nested in variants:
                case = default_case(n, None if all(mask) and item["none_for_all"] else list(mask), method, start_mode)
                case["nested"] = nested
                if scaled_nested:  # nested plan under a VariableScaler, the inner tracker keeps its best result between the inner runs
                    case["vscale"] = [2.0, 0.5, 4.0, 3.0][:n]
                    case["voff"] = [0.1, 0.0, -0.3, 0.2][:n]
                    case["keep_inner_best"] = True
                case["mask_kind"] = ("list", "int-array", "bool-array", "int-list", "tuple")[(sum(mask) + len(method) + nested) % 5]
                case["budget"] = 3 if nested else 5
                info: dict[str, Any] = {}

                def go(case: dict[str, Any] = case, info: dict[str, Any] = info) -> None:
                    info.update(run_case(case))

                guard_call(col, case, go)
                nontrivial = bool(info) and not all(mask) and (info["grad"] >= 1 or info["fun"] >= 3)  # noqa: PLR2004
                col.case((n, mask, method, start_mode, nested, scaled_nested), nontrivial=nontrivial,
                         classes=(f"method={method}", f"n={n}", f"fixed={n - sum(mask)}", f"start={start_mode}",
                                  ("nested-scaled" if scaled_nested else "nested") if nested else "flat"), sample=case)
    col.extra["exhaustive"] = True
    return col


def hypothesis_shard(item: dict[str, Any]) -> Collector:
    from hypothesis import strategies as st

    col = Collector(ID)

    @st.composite
    def cases(draw: Any) -> dict[str, Any]:  # noqa: ANN401
        n = draw(st.integers(1, 4))
        mask = draw(st.lists(st.booleans(), min_size=n, max_size=n))
        if not any(mask):
            mask[draw(st.integers(0, n - 1))] = True
        method = draw(st.sampled_from(METHODS))
        case = default_case(n, mask, method, draw(st.sampled_from(["config", "argument"])))
        case["x0"] = [draw(st.sampled_from([-0.5, 0.0, 0.25, 0.5, 1.0])) for _ in range(n)]
        if case["start"] is not None:
            case["start"] = [draw(st.sampled_from([-0.75, 0.1, 0.4, 0.9, 1.5])) for _ in range(n)]
        if draw(st.integers(0, 3)) == 0 and method != "cobyla":  # start values a rounding error away from a bound (lb=-1, ub=2)
            for i in range(n):
                pick = draw(st.sampled_from(["keep", "keep", "lo", "hi"]))
                if pick != "keep":
                    tiny = draw(st.sampled_from([5e-11, 3e-12, 2e-14]))
                    (case["x0"] if case["start"] is None else case["start"])[i] = -1.0 + tiny if pick == "lo" else 2.0 - tiny
            case["near_bound"] = True
        case["keep_inner_best"] = draw(st.booleans())
        case["vtypes"] = [draw(st.sampled_from([1, 2])) for _ in range(n)] if draw(st.integers(0, 3)) == 0 else None  # REAL / INTEGER
        case["fail_perturbations"] = draw(st.integers(0, 5)) == 0 and method in ("slsqp", "l-bfgs-b", "scripted")
        case["budget"] = draw(st.integers(2, 7))
        case["weights"] = [draw(st.sampled_from([1.0, 2.0])) for _ in range(draw(st.integers(1, 3)))]
        case["slopes"] = [draw(st.sampled_from([-1.0, -0.3, 0.0, 0.4, 1.0])) for _ in range(len(case["weights"]) * n)]
        case["seed"] = draw(st.integers(0, 1000))
        s_n = draw(st.integers(1, 3))
        case["samplers"] = [[draw(st.sampled_from(["norm", "uniform", "sobol", "lhs", "truncnorm"])), draw(st.booleans())] for _ in range(s_n)]
        case["assign"] = [draw(st.integers(0, s_n - 1)) for _ in range(n)] if s_n > 1 or draw(st.booleans()) else None
        if draw(st.integers(0, 2)) == 0:
            case["vscale"] = [draw(st.sampled_from([0.5, 2.0, 3.0, 10.0])) for _ in range(n)]
            case["voff"] = [draw(st.sampled_from([0.0, 0.3, -1.0])) for _ in range(n)]
        case["nested"] = draw(st.integers(0, 1)) == 0 and method in ("slsqp", "nelder-mead", "powell", "l-bfgs-b")
        if draw(st.integers(0, 2)) == 0 and method not in ("de", "de-vec", "cobyla"):
            # relative perturbations, and variables (free or fixed) without an upper bound: accepted only if consistent
            case["ptypes"] = [draw(st.sampled_from([1, 2])) for _ in range(n)]
            case["unbounded"] = sorted(draw(st.sets(st.integers(0, n - 1), max_size=2)))
            fixed_vars = [i for i in range(n) if not mask[i]]
            if fixed_vars and draw(st.booleans()):  # directed: only fixed variables are relative and unbounded
                v = draw(st.sampled_from(fixed_vars))
                case["unbounded"] = [v]
                case["ptypes"] = [2 if (i == v or draw(st.booleans())) else 1 for i in range(n)]
            case["nested"] = False
        if case["nested"] and draw(st.integers(0, 2)) == 0:  # the inner run ends very close to where it was started
            case["inner_shift"] = draw(st.sampled_from([1e-9, 3e-6, -2e-7, 1e-3]))
        if method == "scripted" and case.get("ptypes") is None and not all(mask) and draw(st.integers(0, 3)) > 0:
            # a scripted outer algorithm (it may come back to a point it asked for before) above a scripted inner run whose result
            # depends on where it was started
            case["nested"] = True
            case["inner_shift"] = draw(st.sampled_from([1e-3, 0.02, 3e-6]))
        case["mask_kind"] = draw(st.sampled_from(["list", "int-array", "bool-array", "int-list", "tuple"]))
        case["script"] = [[draw(st.sampled_from(["f", "g"])), draw(st.integers(0, 2))] for _ in range(draw(st.integers(1, 8)))]
        case["script_points"] = [draw(st.sampled_from([-0.5, 0.0, 0.3, 0.8, 1.2])) for _ in range(3 * n)]
        if case["method"] == "scripted" and case.get("nested"):
            case["script"] = [["f", 0], ["f", 1], ["f", 0], ["g", 0], *case["script"]]  # (the algorithm comes back to its first point)
        return case

    def body(case: dict[str, Any]) -> None:
        info = run_case(case)
        fixed = case["n"] - sum(case["mask"])
        free = sum(case["mask"])
        col.case(case, nontrivial=fixed >= 1 and free >= 1 and (info["grad"] >= 1 or info["fun"] >= 3),  # noqa: PLR2004
                 classes=(f"method={case['method']}", "rejected-config" if info.get("rejected") else "accepted-config",
                          "relative-perturbations" if case.get("ptypes") and 2 in case["ptypes"] else "absolute-perturbations", ("nested-tiny-inner-move" if case.get("inner_shift") else "nested") if info["nested_runs"] else "flat",
                          "scaled" if case["vscale"] else "unscaled", f"samplers={len(case['samplers'])}",
                          "start=argument" if case["start"] is not None else "start=config", f"fixed={fixed}", f"mask-as-{case['mask_kind']}",
                          "start-near-bound" if case.get("near_bound") else "start-generic",
                          "all-perturbations-fail" if case.get("fail_perturbations") else "no-failures",
                          "integer-typed-variables" if case.get("vtypes") and 2 in case["vtypes"] else "real-variables"))

    run_hypothesis(col, cases(), body, seed=item["seed"], max_examples=item["examples"])
    return col


def shards(tier: str, seed: int) -> list[dict[str, Any]]:
    items: list[dict[str, Any]] = [{"kind": "exh", "n": n, "none_for_all": nfa} for n in (1, 2, 3, 4) for nfa in (False, True)]
    nshard = 8 if tier == "quick" else 16
    examples = 40 if tier == "quick" else 1200
    items.extend({"kind": "hyp", "seed": seed * 1000 + i, "examples": examples} for i in range(nshard))
    items.sort(key=lambda it: -it.get("n", 3))
    return items


def run_shard(item: dict[str, Any]) -> Collector:
    return exhaustive_shard(item) if item["kind"] == "exh" else hypothesis_shard(item)


def replay(case: dict[str, Any]) -> None:
    run_case(case)
