"""C16 - Runs are reproducible from configuration and seed alone."""

from __future__ import annotations

import gc
import hashlib
import json
import os
import subprocess
import sys
from typing import Any

import numpy as np

from harness.core import Collector, check, run_hypothesis
from harness.ropt_util import AffineEvaluator, DesignSamplerPlugin
from ropt.config.enopt import EnOptConfig
from ropt.enums import EventType
from ropt.plan import OptimizerContext, Plan
from ropt.plugins import PluginManager

ID = "C16"
LEVEL = "exploration"
RULE = (
    "Hypothesis over configurations (1-2 samplers of every built-in method with default or explicit options (distribution parameters, unscrambled QMC), shared or not, assigned per variable; "
    "sort/cvar filters; mean/stddev estimators; masks; SLSQP or differential evolution with an explicit seed option; "
    "small budgets) and over histories: run A, then 1-3 interfering actions (reseeding NumPy's global generator, other "
    "runs that differ in seed / sampler / everything, reuse of the plug-in manager, of the context, of the plan and step "
    "object, passing the same validated EnOptConfig object), then A again - optionally with an unrelated optimization "
    "executed from inside one of A's own callbacks; the evaluator itself reseeds and draws from "
    "the global generator on every call; for a fraction of the cases A is also run in a fresh interpreter with a different "
    "PYTHONHASHSEED. Oracle: "
    "bit-identical hashes of the complete trace (every evaluator request incl. labels and activity flags, every array of "
    "every delivered result, exit code); a run that differs only in the seed must produce different perturbations. "
    "Non-trivial: a stochastic sampler, >=1 gradient evaluation and >=1 interfering action between the two runs of A."
)
ASSUMPTIONS = [
    "the evaluator is deterministic in its arguments (the harness's affine/quadratic evaluator)",
    "fresh-interpreter references use the same Python/NumPy/SciPy installation",
]

STOCHASTIC = ["norm", "uniform", "truncnorm", "sobol", "halton", "lhs"]
SAMPLER_OPTIONS: dict[str, list[dict[str, Any] | None]] = {
    "norm": [None, None, {"loc": 0.5, "scale": 2.0}], "uniform": [None, None, {"loc": -0.5, "scale": 1.0}, {"scale": 4.0}],
    "truncnorm": [None, None, {"a": -2.0, "b": 2.0}, {"b": 0.5}], "sobol": [None, None, {"scramble": False}],
    "halton": [None, None, {"scramble": False}], "lhs": [None, None, {"scramble": False}, {"strength": 1}],
}


def seed_dependent(smp: list[Any]) -> bool:
    """Unscrambled QMC sequences are (Sobol, Halton) or can be (LHS with one sample) deterministic: the seed need not matter."""
    opts = smp[2] if len(smp) > 2 and smp[2] else {}  # noqa: PLR2004
    return not (smp[0] in ("sobol", "halton", "lhs") and opts.get("scramble") is False)



def build_config(spec: dict[str, Any]) -> dict[str, Any]:
    n = spec["n"]
    cfg: dict[str, Any] = {
        "variables": {"initial_values": spec["x0"], **({} if spec.get("unbounded") else {"lower_bounds": [-2.0] * n, "upper_bounds": [3.0] * n})},
        "realizations": {"weights": spec["weights"]},
        "objectives": {"weights": [1.0] * spec["K"]},
        "gradient": {"number_of_perturbations": spec["P"], "perturbation_magnitudes": spec.get("magnitude", 0.05), "seed": spec["seed"]},
        "samplers": [{"method": smp[0], "shared": smp[1], **({"options": smp[2]} if len(smp) > 2 and smp[2] is not None else {})}  # noqa: PLR2004
                     for smp in spec["samplers"]],
        "function_estimators": [{"method": spec["estimator"]}],
    }
    if spec["assign"] is not None:
        cfg["gradient"]["samplers"] = spec["assign"]
    if spec["mask"] is not None:
        cfg["variables"]["mask"] = spec["mask"]
    if spec["filter"] is not None:
        cfg["realization_filters"] = [spec["filter"]]
        cfg["objectives"]["realization_filters"] = [0] * spec["K"]
    if spec["method"] == "de":
        # (SciPy also accepts a Generator as seed: an object that a run must not consume on behalf of the next run)
        de_seed = np.random.default_rng(spec["de_seed"]) if spec.get("de_seed_generator") else spec["de_seed"]
        cfg["optimizer"] = {"method": "differential_evolution", "max_functions": spec["budget"] * 3,
                            "options": {"seed": de_seed, "popsize": 2, "maxiter": 2, "tol": 0.0}}
    else:
        cfg["optimizer"] = {"method": "slsqp", "max_functions": spec["budget"], "speculative": spec["speculative"]}
    return cfg


_PRIVATE = [0]


class GreedySamplerPlugin(DesignSamplerPlugin):
    def is_supported(self, method: str) -> bool:  # noqa: ARG002
        return True


def broken_run() -> None:
    """An unrelated optimization whose perturbations are infinite (finite function values): the SVD of its gradient estimate fails."""
    from ropt.evaluator import EvaluatorResult

    def evaluator(variables: np.ndarray, context: Any) -> Any:  # noqa: ANN401
        target = 0.5 + 0.05 * np.asarray(context.realizations, dtype=np.float64)
        return EvaluatorResult(objectives=((np.clip(variables, -10.0, 10.0) - target[:, np.newaxis]) ** 2).sum(axis=1)[:, np.newaxis])

    plan = Plan(OptimizerContext(evaluator=evaluator))
    plan.run_step(plan.add_step("optimizer"), config={
        "variables": {"initial_values": [0.1, 0.2, 0.3, 0.0]}, "realizations": {"weights": [1.0, 1.0, 1.0]},
        "gradient": {"number_of_perturbations": 6, "perturbation_magnitudes": np.inf, "seed": 5},
        "optimizer": {"method": "slsqp", "max_functions": 6}})


_SALT = [0]  # every run disturbs NumPy's global generator differently (during the run, from inside the evaluator)


def make_evaluator(spec: dict[str, Any]) -> AffineEvaluator:
    r_n, k_n, n = len(spec["weights"]), spec["K"], spec["n"]
    a = np.array(spec["slopes"], dtype=np.float64).reshape(r_n, k_n, n)
    ev = AffineEvaluator(a, np.zeros((r_n, k_n)), quad=1.0)
    _SALT[0] += 1
    salt = _SALT[0]

    def hook(call: int, variables: np.ndarray, context: Any) -> None:  # noqa: ANN401, ARG001
        if (call + salt) % 3:
            np.random.seed(call + 17 + 1000 * salt)  # noqa: NPY002
        np.random.random(1 + salt % 4)  # noqa: NPY002

    ev.hook = hook
    return ev


def walk_arrays(obj: Any, out: list[bytes]) -> None:  # noqa: ANN401
    if isinstance(obj, np.ndarray):
        out.append(str(obj.dtype).encode() + str(obj.shape).encode() + np.ascontiguousarray(obj).tobytes())
    elif isinstance(obj, dict):
        for k in sorted(obj):
            out.append(str(k).encode())
            walk_arrays(obj[k], out)
    elif isinstance(obj, (list, tuple)):
        for v in obj:
            walk_arrays(v, out)
    elif hasattr(obj, "__dataclass_fields__"):
        out.append(type(obj).__name__.encode())
        for name in obj.__dataclass_fields__:
            walk_arrays(getattr(obj, name), out)
    elif obj is None or isinstance(obj, (int, float, str, bool)):
        out.append(repr(obj).encode())


class Session:
    """Objects that may be reused between runs."""

    def __init__(self) -> None:  # noqa: D107
        self.manager: PluginManager | None = None
        self.ctx: OptimizerContext | None = None
        self.ev: AffineEvaluator | None = None
        self.plan: Plan | None = None
        self.step: Any = None
        self.events: list[Any] = []
        self.config_obj: dict[str, EnOptConfig] = {}
        self.steps: dict[str, Any] = {}
        self.config_as = "object"  # or "dict": every run validates the configuration dictionary anew (short-lived EnOptConfig objects)


def run_once(spec: dict[str, Any], session: Session, reuse: str, inside: dict[str, Any] | None = None) -> dict[str, Any]:
    """reuse: fresh | manager | context | step (step = the same plan, step object and validated EnOptConfig object as the
    previous run of this very configuration, if there was one).
    """
    key = json.dumps(spec, sort_keys=True)
    stored = session.steps.get(key) if reuse == "step" else None
    if stored is not None:
        session.plan, session.step, session.ev, session.events, session.ctx = stored
    else:
        if reuse == "fresh" or session.manager is None:
            session.manager = PluginManager()
        if reuse in ("fresh", "manager", "default") or session.ctx is None or session.ev is None:
            session.ev = make_evaluator(spec)
            # ("default": a context that is not given a plug-in manager sets up its own)
            session.ctx = (OptimizerContext(evaluator=session.ev) if reuse == "default"
                           else OptimizerContext(evaluator=session.ev, plugin_manager=session.manager))
            session.events = []
            session.ctx.add_observer(EventType.FINISHED_EVALUATION, lambda e, s=session.events: s.append(e.data["results"]))
        else:
            # same context: the evaluator object is shared, give it this run's functions
            fresh = make_evaluator(spec)
            session.ev.a_obj, session.ev.b_obj = fresh.a_obj, fresh.b_obj
        session.plan = Plan(session.ctx)
        session.step = session.plan.add_step("optimizer")
        session.steps[key] = (session.plan, session.step, session.ev, session.events, session.ctx)
    assert session.ev is not None
    assert session.plan is not None
    fresh = make_evaluator(spec)
    session.ev.a_obj, session.ev.b_obj = fresh.a_obj, fresh.b_obj
    ev = session.ev
    ev.calls.clear()
    session.events.clear()
    # always hand over the same validated configuration object for the same configuration
    config: Any = session.config_obj.setdefault(key, EnOptConfig.model_validate(build_config(spec)))
    if session.config_as == "dict":
        config = build_config(spec)
    pending = {"spec": inside}
    if inside is not None:
        # another, unrelated optimization runs while this one is alive (started from its first FINISHED_EVALUATION)
        def interloper(event: Any) -> None:  # noqa: ANN401, ARG001
            other, pending["spec"] = pending["spec"], None
            if other is not None:
                run_once(other, Session(), "fresh")

        session.ctx.add_observer(EventType.FINISHED_EVALUATION, interloper)
    code = session.plan.run_step(session.step, config=config)
    if session.config_as == "dict":
        del config
        session.events[:] = [list(results) for results in session.events]
        gc.collect()  # the objects of this run are gone (and their addresses free) before the next run starts
    chunks: list[bytes] = [repr(int(code)).encode()]
    first_pert: bytes | None = None
    grads = 0
    for call in ev.calls:
        for name in ("variables", "realizations", "perturbations", "active_objectives", "active_constraints"):
            walk_arrays(call[name], chunks)
        if np.any(call["perturbations"] >= 0):
            grads += 1
            if first_pert is None:
                first_pert = np.ascontiguousarray(call["variables"][call["perturbations"] >= 0]).tobytes()
    for results in session.events:
        walk_arrays(list(results), chunks)
    digest = hashlib.blake2b(b"|".join(chunks), digest_size=16).hexdigest()
    return {"hash": digest, "first_pert": None if first_pert is None else hashlib.blake2b(first_pert, digest_size=8).hexdigest(),
            "grads": grads, "calls": len(ev.calls), "code": int(code)}


def fresh_process_hash(spec: dict[str, Any]) -> str:
    code = ("import json,sys\nimport numpy as np\nfrom checks.c16_reproducible import run_once, Session\n"
            "spec=json.loads(sys.stdin.read())\nprint('HASH', run_once(spec, Session(), 'fresh')['hash'])\n")
    env = dict(os.environ)
    env["PYTHONHASHSEED"] = str(1 + (len(json.dumps(spec)) + int(np.sum(spec["seed"]) % 1000)) % 7)  # this process runs with PYTHONHASHSEED=0
    proc = subprocess.run([sys.executable, "-c", code], input=json.dumps(spec), capture_output=True, text=True, env=env,  # noqa: S603
                          timeout=300, check=False)
    for line in proc.stdout.splitlines():
        if line.startswith("HASH "):
            return line.split()[1]
    msg = f"fresh interpreter failed: {proc.stderr[-500:]}"
    raise RuntimeError(msg)


def run_case(case: dict[str, Any]) -> dict[str, Any]:
    spec = case["A"]
    session = Session()
    session.config_as = case.get("config_as", "object")
    first = run_once(spec, session, "fresh")
    interfering = 0
    for action in case["actions"]:
        if action["kind"] == "reseed":
            np.random.seed(action["value"])  # noqa: NPY002
            interfering += 1
        elif action["kind"] == "private-plugin":
            # somebody else's context (with the plug-in manager it set up for itself) gets a prioritized sampler plug-in that
            # claims every method name: a private matter of that context
            _PRIVATE[0] += 1
            other_ctx = OptimizerContext(evaluator=make_evaluator(spec))
            other_ctx.plugin_manager.add_plugin("sampler", f"private{_PRIVATE[0]}", GreedySamplerPlugin(), prioritize=True)
            interfering += 1
        elif action["kind"] == "broken-run":
            # an unrelated optimization that ends with an exception from the numerical core (infinite perturbations: the SVD of
            # the gradient estimate does not converge); whatever it raises is its own business
            try:
                broken_run()
            except Exception:  # noqa: BLE001, S110
                pass
            interfering += 1
        else:
            other = dict(spec)
            other.update(action["changes"])
            res = run_once(other, session, action["reuse"])
            interfering += 1
            if set(action["changes"]) == {"seed"} and action["changes"]["seed"] != spec["seed"] and first["first_pert"] is not None \
                    and all(seed_dependent(smp) for smp in spec["samplers"]):
                check(res["first_pert"] != first["first_pert"], "seed-ignored",
                      f"a run that differs only in the seed ({spec['seed']} -> {action['changes']['seed']}) used identical perturbations", case)
    import logging

    root_level, ropt_level = logging.getLogger().level, logging.getLogger("ropt").level
    if case.get("debug_logging"):  # the verbosity of the process' logging says nothing about the numbers of a run
        logging.getLogger().addHandler(logging.NullHandler())
        logging.getLogger().setLevel(logging.DEBUG)
        logging.getLogger("ropt").setLevel(logging.DEBUG)
    try:
        second = run_once(spec, session, case["final_reuse"], inside=case.get("inside"))
    except Exception as exc:  # noqa: BLE001
        check(False, "trace-differs", f"the second run of the same configuration (after {[a['kind'] for a in case['actions']]}, "  # noqa: FBT003
              f"reuse={case['final_reuse']}) raised {type(exc).__name__}: {exc} - the first run had ended with exit code {first['code']}", case)
        raise
    finally:
        logging.getLogger().setLevel(root_level)
        logging.getLogger("ropt").setLevel(ropt_level)
    check(second["code"] == first["code"], "exit-code-differs", f"exit codes {first['code']} vs {second['code']}", case)
    check(second["calls"] == first["calls"], "trace-differs", f"{first['calls']} vs {second['calls']} evaluator calls", case)
    check(second["hash"] == first["hash"], "trace-differs",
          f"the second run of the same configuration (after {[a['kind'] for a in case['actions']]}, reuse={case['final_reuse']}) "
          "produced a different request/result trace", case)
    if case["fresh_process"]:
        ref = fresh_process_hash(spec)
        check(ref == first["hash"], "trace-differs-from-fresh-process", "the first in-process run differs from the run in a fresh interpreter", case)
        check(ref == second["hash"], "trace-differs-from-fresh-process", "the repeated in-process run differs from the run in a fresh interpreter", case)
    return {"grads": first["grads"], "interfering": interfering}


def hypothesis_shard(item: dict[str, Any]) -> Collector:
    from hypothesis import strategies as st

    col = Collector(ID)

    @st.composite
    def sampler(draw: Any, methods: list[str] = STOCHASTIC + ["sobol", "halton", "lhs"]) -> list[Any]:  # noqa: ANN401, B006
        method = draw(st.sampled_from(methods))
        return [method, draw(st.booleans()), draw(st.sampled_from(SAMPLER_OPTIONS[method]))]

    # seeds: small and large integers (any non-negative integer is a valid seed), or a sequence of them
    seeds = st.one_of(st.integers(0, 50), st.integers(0, 50), st.sampled_from([2**31, 2**32 + 5, 2**40 + 3, 2**63 + 1, 2**64 + 9]),
                      st.lists(st.sampled_from([0, 1, 7, 2**32 + 1]), min_size=2, max_size=3))

    @st.composite
    def specs(draw: Any) -> dict[str, Any]:  # noqa: ANN401
        n, r_n = draw(st.integers(1, 3)), draw(st.integers(1, 3))
        s_n = draw(st.integers(1, 2))
        estimator = draw(st.sampled_from(["mean", "mean", "stddev"])) if r_n > 1 else "mean"
        flt = None
        if r_n > 1 and draw(st.booleans()):
            flt = draw(st.sampled_from([
                {"method": "sort-objective", "options": {"sort": [0], "first": 0, "last": r_n - 1 if estimator == "stddev" else 0}},
                {"method": "cvar-objective", "options": {"sort": [0], "percentile": 0.75}}]))
        mask = None
        if n > 1 and draw(st.booleans()):
            mask = [True] + [draw(st.booleans()) for _ in range(n - 1)]
        return {"n": n, "K": 1, "P": draw(st.integers(1, 4)), "weights": [draw(st.sampled_from([1.0, 2.0])) for _ in range(r_n)],
                "x0": [draw(st.sampled_from([0.0, 0.5, -0.5])) for _ in range(n)], "seed": draw(seeds),
                "samplers": [draw(sampler()) for _ in range(s_n)],
                "assign": [draw(st.integers(0, s_n - 1)) for _ in range(n)] if s_n > 1 else None, "mask": mask, "filter": flt,
                "estimator": estimator, "method": draw(st.sampled_from(["slsqp", "slsqp", "de"])), "de_seed": draw(st.integers(0, 20)),
                "de_seed_generator": draw(st.integers(0, 2)) == 0,
                "budget": draw(st.integers(2, 4)), "speculative": draw(st.booleans()),
                "slopes": [draw(st.sampled_from([-1.0, -0.3, 0.4, 1.0])) for _ in range(r_n * n)]}

    def bump(seed: Any, delta: int) -> Any:  # noqa: ANN401
        """Another seed: for a sequence of integers only its last entry changes."""
        return [*seed[:-1], seed[-1] + delta] if isinstance(seed, list) else seed + delta

    @st.composite
    def cases(draw: Any) -> dict[str, Any]:  # noqa: ANN401
        spec = draw(specs())
        actions = []
        for _ in range(draw(st.integers(1, 3))):
            kind = draw(st.sampled_from(["reseed", "run", "run", "run", "run", "broken-run"]))
            if kind == "broken-run":
                actions.append({"kind": draw(st.sampled_from(["broken-run", "private-plugin"]))})
                continue
            if kind == "reseed":
                actions.append({"kind": "reseed", "value": draw(st.integers(0, 2**31 - 1))})
                continue
            what = draw(st.sampled_from(["seed", "seed", "sampler", "other"] + (["assign", "assign"] if spec["assign"] else [])))
            if what == "assign":  # the same samplers assigned the other way round (another order of first appearance)
                top = len(spec["samplers"]) - 1
                changes: dict[str, Any] = {"assign": [top - a for a in spec["assign"]]}
            elif what == "seed":
                changes = {"seed": bump(spec["seed"], draw(st.sampled_from([1, 2, 3, 5, 9, 2**32, 2**33, 3 * 2**32, 2**64])))}
            elif what == "sampler":
                # other samplers, or the same methods with other options
                changes = {"samplers": [draw(sampler([smp[0]] if draw(st.booleans()) else STOCHASTIC)) for smp in spec["samplers"]],
                           "seed": draw(st.integers(0, 50))}
            else:
                other = draw(specs())
                changes = {k: other[k] for k in other}
            actions.append({"kind": "run", "changes": changes, "reuse": draw(st.sampled_from(["fresh", "manager", "context", "step"]))})
        inside = None
        if draw(st.integers(0, 2)) == 0:  # an unrelated run with the same kind of samplers, executed from a callback of the second run of A
            inside = dict(spec)
            inside.update({"seed": bump(spec["seed"], 11), "x0": [v + 0.25 for v in spec["x0"]]})
        qmc = {smp[0] for smp in spec["samplers"] if smp[0] in ("sobol", "halton", "lhs")}
        return {"A": spec, "actions": actions, "config_as": draw(st.sampled_from(["object", "dict"])), "debug_logging": draw(st.integers(0, 3)) == 0, "final_reuse": draw(st.sampled_from(["fresh", "manager", "context", "step", "default"])),
                # several different QMC engines share one generator: always compare with another interpreter (hash seed)
                "fresh_process": len(qmc) > 1 or draw(st.integers(0, item["fresh_every"])) == 0, "inside": inside}

    def body(case: dict[str, Any]) -> None:
        info = run_case(case)
        methods = {smp[0] for smp in case["A"]["samplers"]}
        with_options = any(len(smp) > 2 and smp[2] for smp in case["A"]["samplers"])  # noqa: PLR2004
        col.case(case, nontrivial=info["grads"] >= 1 and info["interfering"] >= 1, classes=(
            f"optimizer={case['A']['method']}", *(f"sampler={m}" for m in sorted(methods)), f"final-reuse={case['final_reuse']}",
            "fresh-process-reference" if case["fresh_process"] else "in-process-only", f"config-as={case.get('config_as', 'object')}",
            "interloper-inside-run" if case.get("inside") else "no-interloper", "sampler-options" if with_options else "default-sampler-options", "gradients" if info["grads"] else "no-gradients",
            *(f"action={a['kind']}" + (":" + a["reuse"] if a["kind"] == "run" else "") for a in case["actions"])))

    run_hypothesis(col, cases(), body, seed=item["seed"], max_examples=item["examples"])
    return col


def shards(tier: str, seed: int) -> list[dict[str, Any]]:
    nshard = 8 if tier == "quick" else 16
    examples = 50 if tier == "quick" else 1500
    items: list[dict[str, Any]] = [{"seed": seed * 1000 + i, "examples": examples, "fresh_every": 12 if tier == "quick" else 25} for i in range(nshard)]
    items.append({"kind": "large", "seed": seed})
    return items


def large_case(seed: int) -> dict[str, Any]:
    """More free variables and perturbations than any size threshold inside the gradient code is likely to be (40 x 40)."""
    n = 40
    spec = {"n": n, "K": 1, "P": n, "weights": [1.0], "x0": [0.1 * ((3 * i) % 7 - 3) for i in range(n)], "seed": 5 + seed,
            "samplers": [["norm", False, None]], "assign": None, "mask": None, "filter": None, "estimator": "mean", "method": "slsqp",
            "de_seed": 1, "budget": 3, "speculative": False, "slopes": [0.3 * ((5 * i) % 11 - 5) for i in range(n)]}
    return {"A": spec, "actions": [{"kind": "reseed", "value": 12345 + seed}], "final_reuse": "fresh", "fresh_process": False, "inside": None}


def run_shard(item: dict[str, Any]) -> Collector:
    if item.get("kind") == "large":
        col = Collector(ID)
        case = large_case(item["seed"])
        from harness.core import guard_call

        guard_call(col, case, lambda: run_case(case))
        col.case(("large", item["seed"]), nontrivial=True, classes=("large-40x40", "optimizer=slsqp"), sample=case)
        return col
    return hypothesis_shard(item)


def replay(case: dict[str, Any]) -> None:
    run_case(case)
