"""C03 - Failed realizations and perturbations are excluded exactly as if absent."""

from __future__ import annotations

import itertools
from typing import Any

import numpy as np

from harness.core import Collector, check, guard_call, run_hypothesis
from harness.ropt_util import AffineEvaluator, DesignSamplerPlugin
from ropt.config.enopt import EnOptConfig
from ropt.ensemble_evaluator import EnsembleEvaluator
from ropt.enums import OptimizerExitCode
from ropt.exceptions import OptimizationAborted
from ropt.plan import BasicOptimizer
from ropt.plugins import PluginManager

ID = "C03"
LEVEL = "fault_enumeration"
RULE = (
    "fault sets = subsets of the R + R*P evaluations (realization r unperturbed | perturbation p of r) of one "
    "function+gradient request that return NaN. Exhaustive over all subsets for R,P<=2 (quick) and R,P<=3 (thorough) x "
    "realization_min_success 0..R x perturbation_min_success 1..P x NaN column (objective | first constraint | second constraint) x estimator "
    "(mean|stddev, stddev not with infinite values) x filter (none|sort|cvar) x evaluation path (combined|split) (+ merged-realization estimation for mean/no filter); Hypothesis-sampled for R<=6, P<=8. "
    "Oracle: flag/gate predicates + differential run of the same code on the reduced ensemble (failed realizations "
    "deleted, weights restricted) + exact affine gradient; plus a real SLSQP run per fault set for the exit code. "
    "Non-trivial: >=1 failure and >=1 surviving realization with positive weight."
)
ASSUMPTIONS = [
    "affine ensemble and injected full-rank design sampler, so that exact gradients are known",
    "with filters, gradients are compared only when no realization fails through its perturbations alone "
    "(the statement does not fix whether filters rank before or after that exclusion)",
    "function values rtol 1e-10, gradients 1e-7 * (1 + max|slope|)",
]

X = {1: [0.3], 2: [0.3, -0.2]}


def slopes(r_n: int, cols: int, n: int) -> tuple[np.ndarray, np.ndarray]:
    a = np.array([[[((3 * r + 5 * c + 7 * v) % 7) - 3.0 + 0.5 * ((r + c + v) % 2) for v in range(n)]
                   for c in range(cols)] for r in range(r_n)])
    b = np.array([[((2 * r + 3 * c) % 5) - 2.0 + 0.25 * r for c in range(cols)] for r in range(r_n)])
    return a, b


def design(r_n: int, p_n: int, n: int) -> np.ndarray:
    d = np.zeros((r_n, p_n, n))
    for r in range(r_n):
        for p in range(p_n):
            d[r, p, p % n] = (1.0 if (p // n) % 2 == 0 else -0.5) * (1 + 0.1 * r)
            if n > 1:
                d[r, p, (p + 1) % n] += 0.25
    return d


class InfiniteValues:
    """Evaluator wrapper: some cells that are not NaN are +inf / -inf (an infinite value is a value, not a failure)."""

    def __init__(self, inner: AffineEvaluator, cells: list[list[int]], k_n: int) -> None:  # noqa: D107
        self.inner, self.cells, self.k_n, self.calls = inner, cells, k_n, inner.calls

    def __call__(self, variables: np.ndarray, context: Any) -> Any:  # noqa: ANN401
        res = self.inner(variables, context)
        perts = np.full(variables.shape[0], -1) if context.perturbations is None else np.asarray(context.perturbations)
        for r, p, col, sign in self.cells:
            rows = (np.asarray(context.realizations) == r) & (perts == p)
            target = res.objectives if col < self.k_n else res.constraints
            c = col if col < self.k_n else col - self.k_n
            keep_nan = np.isnan(target[rows, c])
            target[rows, c] = np.where(keep_nan, np.nan, np.inf if sign > 0 else -np.inf)
        return res


def make(case: dict[str, Any], keep: list[int] | None = None) -> tuple[EnOptConfig, AffineEvaluator, PluginManager]:
    """Build the (optionally reduced to realizations `keep`) ensemble."""
    r_n, p_n, n, k_n, c_n = case["R"], case["P"], case["n"], case["K"], case.get("C", 1)
    keep = list(range(r_n)) if keep is None else keep
    weights = [case["weights"][r] for r in keep]
    cfg: dict[str, Any] = {
        "variables": {"initial_values": X[n]},
        "realizations": {"weights": weights, "realization_min_success": 0 if len(keep) < r_n else case["rmin"]},
        "objectives": {"weights": [1.0] * k_n},
        "nonlinear_constraints": {"lower_bounds": [0.0] * c_n, "upper_bounds": [np.inf] * c_n},
        "gradient": {"number_of_perturbations": p_n, "perturbation_min_success": case["pmin"],
                     "perturbation_magnitudes": 0.01, "boundary_types": 1, "merge_realizations": bool(case.get("merge"))},
        "function_estimators": [{"method": case["estimator"]}],
        "samplers": [{"method": "design/fixed"}],
    }
    if case.get("est_split"):  # the objectives alone use the estimator under test, the constraints a mean estimator of their own
        cfg["function_estimators"].append({"method": "mean"})
        cfg["objectives"]["function_estimators"] = [0] * k_n
        cfg["nonlinear_constraints"]["function_estimators"] = [1] * c_n
    if case["filter"] == "sort":
        cfg["realization_filters"] = [{"method": "sort-objective", "options": {"sort": [0], "first": 0, "last": 0 if case["estimator"] == "mean" else 1}}]
        cfg["objectives"]["realization_filters"] = [0] * k_n
    elif case["filter"] == "cvar":
        cfg["realization_filters"] = [{"method": "cvar-objective", "options": {"sort": [0], "percentile": 0.75}}]
        cfg["objectives"]["realization_filters"] = [0] * k_n
    a, b = slopes(r_n, k_n + c_n, n)
    fail: dict[tuple[int, ...], list[tuple[str, int]]] = {}
    col = ("obj", case["nan_col"]) if case["nan_col"] < k_n else ("con", case["nan_col"] - k_n)
    for new_r, r in enumerate(keep):
        if len(keep) == r_n and case["mask"][r]:
            fail[(new_r, -1)] = [col]
        for p in range(p_n):
            if case["mask"][r_n + r * p_n + p]:
                fail[(new_r, p)] = [col]
    ev: Any = AffineEvaluator(a[keep][:, :k_n], b[keep][:, :k_n], a[keep][:, k_n:], b[keep][:, k_n:], fail=fail)
    if case.get("inf") and len(keep) == r_n:
        ev = InfiniteValues(ev, case["inf"], k_n)
    manager = PluginManager()
    manager.add_plugin("sampler", "design", DesignSamplerPlugin([design(r_n, p_n, n)[keep]]))
    return EnOptConfig.model_validate(cfg), ev, manager


def evaluate(case: dict[str, Any], keep: list[int] | None, split: bool) -> tuple[Any, Any] | None:  # noqa: ANN401, FBT001
    cfg, ev, manager = make(case, keep)
    ens = EnsembleEvaluator(cfg, None, ev, manager)
    x = np.array(X[case["n"]])
    try:
        if split:
            (fres,) = ens.calculate(x, compute_functions=True, compute_gradients=False)
            # (whether the functions are evaluated once more here is the business of C06 / C07: the gradient result is the last one)
            gres = ens.calculate(x, compute_functions=False, compute_gradients=True)[-1]
        else:
            fres, gres = ens.calculate(x, compute_functions=True, compute_gradients=True)
    except OptimizationAborted as exc:
        check(exc.exit_code == OptimizerExitCode.TOO_FEW_REALIZATIONS, "abort-code", f"{exc.exit_code}", case)
        return None
    if keep is None and case["filter"] == "none" and not case.get("inf"):
        # a failure is not a weight of zero: what the evaluator is told to skip is decided by the weights alone (without filters:
        # the configured ones), also in the gradient request that follows a function evaluation with failed realizations
        for call in getattr(ev, "calls", []):
            for name in ("active_objectives", "active_constraints"):
                flags = call[name]
                if flags is not None:
                    for r in range(case["R"]):
                        check(case["weights"][r] == 0 or bool(np.all(flags[:, r])), "inactive-with-weight",
                              f"{name}: realization {r} is flagged inactive although its weight is {case['weights'][r]} "
                              f"(perturbation labels {call['perturbations'].tolist()})", case)
    return fres, gres


def close(a: Any, b: Any, tol: float) -> bool:  # noqa: ANN401
    a, b = np.asarray(a, dtype=np.float64), np.asarray(b, dtype=np.float64)
    return a.shape == b.shape and bool(np.all((np.abs(a - b) <= tol * (1 + np.abs(b))) | (np.isnan(a) & np.isnan(b))))


def run_case(case: dict[str, Any]) -> dict[str, Any]:  # noqa: C901, PLR0912, PLR0915
    r_n, p_n, n, k_n = case["R"], case["P"], case["n"], case["K"]
    mask = np.array(case["mask"], dtype=bool)
    f_failed = mask[:r_n].copy()
    p_failed = mask[r_n:].reshape(r_n, p_n)
    g_failed = f_failed | ((~p_failed).sum(axis=1) < case["pmin"])
    weights = np.array(case["weights"], dtype=np.float64)
    info = {"compared": 0, "aborted": False}
    out = evaluate(case, None, case["split"])
    # aborts are legitimate only from stddev (<2 weighted successes) or a filter without positive weight
    if out is None:
        info["aborted"] = True
        alive_f = weights[~f_failed] > 0
        alive_g = weights[~g_failed] > 0
        enough = int(alive_f.sum()) >= (2 if case["estimator"] == "stddev" else 1) and \
            int(alive_g.sum()) >= (2 if case["estimator"] == "stddev" else 1)
        gated_f = int((~f_failed).sum()) < case["rmin_eff"]
        gated_g = int((~g_failed).sum()) < case["rmin_eff"]
        if case["filter"] == "none" and enough and not f_failed.all():
            check(False, "unexpected-abort", "TOO_FEW_REALIZATIONS abort although enough weighted realizations succeeded", case)  # noqa: FBT003
        del gated_f, gated_g
        return info
    fres, gres = out
    # (a) flags
    check(bool(np.array_equal(np.asarray(fres.realizations.failed_realizations), f_failed)), "function-flags",
          f"function failed flags {np.asarray(fres.realizations.failed_realizations).tolist()} != {f_failed.tolist()}", case)
    check(bool(np.array_equal(np.asarray(gres.realizations.failed_realizations), g_failed)), "gradient-flags",
          f"gradient failed flags {np.asarray(gres.realizations.failed_realizations).tolist()} != {g_failed.tolist()}", case)
    # (b) gates
    f_ok = int((~f_failed).sum()) >= case["rmin_eff"]
    g_ok = int((~g_failed).sum()) >= case["rmin_eff"]
    check((fres.functions is not None) == f_ok, "function-gate",
          f"{int((~f_failed).sum())} successes, min {case['rmin_eff']}: functions {'present' if fres.functions is not None else 'absent'}", case)
    check((gres.gradients is not None) == g_ok, "gradient-gate",
          f"{int((~g_failed).sum())} successes, min {case['rmin_eff']}: gradients {'present' if gres.gradients is not None else 'absent'}", case)
    if case.get("inf"):
        return info  # (values that involve infinities are not compared: only the flags and gates are decided)
    # (c) values against the reduced ensemble
    keep_f = [r for r in range(r_n) if not f_failed[r]]
    keep_g = [r for r in range(r_n) if not g_failed[r]]
    if f_ok and keep_f and np.any(weights[keep_f] > 0):
        ref = evaluate(case, keep_f, False) if len(keep_f) < r_n else None
        if ref is not None:
            rf = ref[0]
            info["compared"] += 1
            check(rf.functions is not None, "harness", "reduced ensemble gave no functions", case)
            check(close(fres.functions.objectives, rf.functions.objectives, 1e-10)
                  and close(fres.functions.constraints, rf.functions.constraints, 1e-10)
                  and close(fres.functions.weighted_objective, rf.functions.weighted_objective, 1e-10), "function-values",
                  f"functions with failures {np.asarray(fres.functions.objectives).tolist()}/{np.asarray(fres.functions.constraints).tolist()} != "
                  f"reduced ensemble {np.asarray(rf.functions.objectives).tolist()}/{np.asarray(rf.functions.constraints).tolist()}", case)
    comparable_g = g_ok and keep_g and np.any(weights[keep_g] > 0) and (case["filter"] == "none" or keep_g == keep_f)
    if comparable_g:
        if len(keep_g) < r_n:
            ref = evaluate(case, keep_g, False)
            if ref is not None and ref[1].gradients is not None:
                info["compared"] += 1
                rg = ref[1].gradients
                check(close(gres.gradients.objectives, rg.objectives, 1e-8) and close(gres.gradients.constraints, rg.constraints, 1e-8)
                      and close(gres.gradients.weighted_objective, rg.weighted_objective, 1e-8), "gradient-values",
                      f"gradient with failures {np.asarray(gres.gradients.objectives).tolist()} != reduced ensemble "
                      f"{np.asarray(rg.objectives).tolist()}", case)
        # exact affine gradient (mean, no filter) when the surviving perturbations determine it
        if case["estimator"] == "mean" and case["filter"] == "none" and not case.get("merge"):
            d = design(r_n, p_n, n) * 0.01
            w = np.where(g_failed, 0.0, weights)
            w = w / w.sum()
            contrib = [r for r in range(r_n) if w[r] > 0]
            ok = True
            for r in contrib:
                dr = d[r][~p_failed[r]]
                if dr.shape[0] < n:
                    ok = False
                    break
                s2 = np.linalg.svd(dr, compute_uv=False) ** 2
                ok = ok and s2.min() >= 0.011 * s2.sum()
            if ok:
                a, _ = slopes(r_n, k_n + case.get("C", 1), n)
                info["compared"] += 1
                for col in range(k_n + case.get("C", 1)):
                    exact = (w[:, None] * a[:, col]).sum(axis=0)
                    got = np.asarray(gres.gradients.objectives[col] if col < k_n else gres.gradients.constraints[col - k_n])
                    check(bool(np.all(np.abs(got - exact) <= 1e-7 * (1 + np.abs(a).max()))), "gradient-exact",
                          f"function {col}: gradient {got.tolist()} != exact gradient of the reduced ensemble {exact.tolist()}", case)
    return info


def run_optimizer(case: dict[str, Any]) -> None:
    """(d) full stack: a missing result ends the run with TOO_FEW_REALIZATIONS and nothing is requested afterwards."""
    r_n, p_n = case["R"], case["P"]
    cfg, ev, manager = make(case)
    del manager
    mask = np.array(case["mask"], dtype=bool)
    f_failed = mask[:r_n]
    g_failed = f_failed | ((~mask[r_n:].reshape(r_n, p_n)).sum(axis=1) < case["pmin"])
    cfgd = cfg.model_dump(round_trip=True)
    cfgd["optimizer"] = {"method": "slsqp", "max_functions": 2, "split_evaluations": True}
    cfgd["samplers"] = [{"method": "norm"}]
    rmin = case["rmin_eff"]
    opt = BasicOptimizer(cfgd, ev).run()
    calls = len(ev.calls)
    f_ok = int((~f_failed).sum()) >= max(rmin, 1)
    g_ok = int((~g_failed).sum()) >= max(rmin, 1)
    if not f_ok:
        check(opt.exit_code == OptimizerExitCode.TOO_FEW_REALIZATIONS and calls == 1, "run-exit-code",
              f"functions unavailable at the first evaluation: exit code {opt.exit_code.name}, {calls} evaluator calls", case)
    elif not g_ok:
        check(opt.exit_code == OptimizerExitCode.TOO_FEW_REALIZATIONS and calls == 2, "run-exit-code",  # noqa: PLR2004
              f"gradient unavailable at the second evaluation: exit code {opt.exit_code.name}, {calls} evaluator calls", case)
    else:
        check(opt.exit_code != OptimizerExitCode.TOO_FEW_REALIZATIONS, "run-exit-code",
              f"enough realizations succeeded but the run ended with {opt.exit_code.name}", case)


def normalise(case: dict[str, Any]) -> dict[str, Any]:
    case = dict(case)
    case["rmin_eff"] = min(case["rmin"], case["R"])
    return case


def replay(case: dict[str, Any]) -> None:
    case = normalise(case)
    if case.get("kind") == "run":
        run_optimizer(case)
    else:
        run_case(case)


def classify(case: dict[str, Any], info: dict[str, Any]) -> tuple[bool, tuple[str, ...]]:
    r_n = case["R"]
    mask = np.array(case["mask"], dtype=bool)
    f_failed = mask[:r_n]
    w = np.array(case["weights"])
    nontrivial = bool(mask.any()) and bool(np.any(w[~f_failed] > 0))
    return nontrivial, (f"R={r_n}", f"P={case['P']}", case["estimator"], f"filter={case['filter']}",
                        "split" if case["split"] else "combined", "aborted" if info["aborted"] else f"compared={min(info['compared'], 3)}",
                        f"failures={min(int(mask.sum()), 4)}", "infinite-values" if case.get("inf") else "finite-values")


def exhaustive_shard(item: dict[str, Any]) -> Collector:
    col = Collector(ID)
    r_n, p_n = item["R"], item["P"]
    n = 1 if p_n < 3 else 2  # noqa: PLR2004
    bits = r_n + r_n * p_n
    masks = list(itertools.product([False, True], repeat=bits))
    for mask in masks[item["part"]:: item["parts"]]:
        for rmin, pmin, nan_col, est, flt, split in itertools.product(
                range(r_n + 1), range(1, p_n + 1), (0, 1, 2), ("mean", "stddev"), ("none", "sort", "cvar"), (False, True)):
            if est == "stddev" and r_n < 2:  # noqa: PLR2004
                continue
            case = normalise({"est_split": est == "stddev" and sum(mask) % 2 == 1, "R": r_n, "P": p_n, "n": n, "K": 1, "C": 2, "mask": list(mask), "rmin": rmin, "pmin": pmin,
                              "nan_col": nan_col, "estimator": est, "filter": flt, "split": split,
                              "weights": [1.0 + 0.5 * r for r in range(r_n)]})
            info: dict[str, Any] = {"compared": 0, "aborted": False}

            def go(case: dict[str, Any] = case, info: dict[str, Any] = info) -> None:
                info.update(run_case(case))

            guard_call(col, case, go)
            nontrivial, classes = classify(case, info)
            col.case((r_n, p_n, mask, rmin, pmin, nan_col, est, flt, split), nontrivial=nontrivial, classes=classes, sample=case)
            if est == "mean" and flt == "none" and nan_col == 0:  # merged-realization estimation of the same fault set
                mcase = {**case, "merge": True}
                minfo: dict[str, Any] = {"compared": 0, "aborted": False}

                def gom(mcase: dict[str, Any] = mcase, minfo: dict[str, Any] = minfo) -> None:
                    minfo.update(run_case(mcase))

                guard_call(col, mcase, gom)
                nontrivial, classes = classify(mcase, minfo)
                col.case((r_n, p_n, mask, rmin, pmin, "merge", split), nontrivial=nontrivial, classes=(*classes, "merged"), sample=mcase)
        # (d) one real optimizer run per fault set and threshold pair
        if item.get("runs"):
            for rmin, pmin in itertools.product(range(r_n + 1), range(1, p_n + 1)):
                case = normalise({"kind": "run", "R": r_n, "P": p_n, "n": n, "K": 1, "mask": list(mask), "rmin": rmin, "pmin": pmin,
                                  "nan_col": 0, "estimator": "mean", "filter": "none", "split": True,
                                  "weights": [1.0] * r_n})
                guard_call(col, case, lambda case=case: run_optimizer(case))
                col.case(("run", r_n, p_n, mask, rmin, pmin), nontrivial=any(mask), classes=("optimizer-run",), sample=case)
    col.extra["exhaustive"] = True
    return col


def hypothesis_shard(item: dict[str, Any]) -> Collector:
    from hypothesis import strategies as st

    col = Collector(ID)

    @st.composite
    def cases(draw: Any) -> dict[str, Any]:  # noqa: ANN401
        r_n, p_n = draw(st.integers(1, 6)), draw(st.integers(1, 8))
        n = draw(st.integers(1, 2))
        bits = r_n + r_n * p_n
        density = draw(st.sampled_from([0.05, 0.15, 0.4]))
        mask = [draw(st.floats(0, 1)) < density for _ in range(bits)]
        est = draw(st.sampled_from(["mean", "stddev"])) if r_n > 1 else "mean"
        weights = [draw(st.sampled_from([0.0, 1.0, 1.0, 2.0, 0.5])) for _ in range(r_n)]
        if sum(weights) == 0:
            weights[0] = 1.0
        k_n, c_n = draw(st.integers(1, 2)), draw(st.integers(1, 3))
        inf = []
        if draw(st.integers(0, 4)) == 0:  # infinite values (both signs, several columns) in cells that did not fail
            for _ in range(draw(st.integers(1, 3))):
                r_i, p_i = draw(st.integers(0, r_n - 1)), draw(st.integers(-1, p_n - 1))
                first = draw(st.integers(0, k_n + c_n - 1))
                sign = draw(st.sampled_from([1, -1]))
                inf.append([r_i, p_i, first, sign])
                group = list(range(k_n)) if first < k_n else list(range(k_n, k_n + c_n))
                if len(group) > 1 and draw(st.booleans()):  # the opposite infinity in another column of the same row
                    inf.append([r_i, p_i, draw(st.sampled_from([c for c in group if c != first])), -sign])
        return normalise({"est_split": draw(st.booleans()), "inf": inf,"R": r_n, "P": p_n, "n": n, "K": k_n, "C": c_n, "mask": mask,
                          "rmin": draw(st.integers(0, r_n)), "pmin": draw(st.integers(1, p_n)),
                          "nan_col": draw(st.integers(0, k_n + c_n - 1)), "estimator": est,
                          "filter": draw(st.sampled_from(["none", "none", "sort", "cvar"])) if r_n > 1 else "none",
                          "split": draw(st.booleans()), "weights": weights,
                          "merge": est == "mean" and draw(st.integers(0, 3)) == 0})

    def body(case: dict[str, Any]) -> None:
        info = run_case(case)
        nontrivial, classes = classify(case, info)
        col.case(case, nontrivial=nontrivial, classes=classes)

    run_hypothesis(col, cases(), body, seed=item["seed"], max_examples=item["examples"])
    return col


def shards(tier: str, seed: int) -> list[dict[str, Any]]:
    items: list[dict[str, Any]] = []
    rp = [(1, 1), (1, 2), (2, 1), (2, 2), (3, 1), (3, 2)] if tier == "quick" else [(r, p) for r in (1, 2, 3) for p in (1, 2, 3)]
    for r_n, p_n in rp:
        bits = r_n + r_n * p_n
        parts = 1 if bits <= 4 else (8 if bits <= 6 else (16 if bits <= 9 else 64))  # noqa: PLR2004
        items.extend({"kind": "exh", "R": r_n, "P": p_n, "part": i, "parts": parts, "runs": bits <= 6} for i in range(parts))  # noqa: PLR2004
    nshard = 8 if tier == "quick" else 16
    examples = 120 if tier == "quick" else 2500
    items.extend({"kind": "hyp", "seed": seed * 1000 + i, "examples": examples} for i in range(nshard))
    items.sort(key=lambda it: -(it.get("R", 0) * (1 + it.get("P", 0))))
    return items


def run_shard(item: dict[str, Any]) -> Collector:
    return exhaustive_shard(item) if item["kind"] == "exh" else hypothesis_shard(item)
