"""C20 - External-process runs equal in-process runs; process death is never success."""

from __future__ import annotations

import json
import hashlib
import os
import signal
import time
from typing import Any

import numpy as np

from harness.core import Collector, HarnessError, Violation, check, guard_call
from harness.ropt_util import AffineEvaluator
from ropt.enums import EventType, OptimizerExitCode
from ropt.exceptions import OptimizationAborted
from ropt.plan import OptimizerContext, Plan

ID = "C20"
LEVEL = "fault_enumeration"
RULE = (
    "configurations of in-process methods (slsqp unconstrained / with non-linear+linear constraints and a mask / with an output directory and redirected output / with "
    "relative perturbations and several samplers; l-bfgs-b with 3000 variables (messages above the pipe capacity); nelder-mead with a max_functions stop; differential evolution serial "
    "and vectorized with NaN failures and realization_min_success 0; a failure leading to TOO_FEW_REALIZATIONS; a user "
    "abort raised by an observer) are run in-process and through external/<method>: the traces (every evaluator request "
    "bitwise, every delivered result array, exit code) must be identical. Crash points: the optimizer process is killed "
    "(SIGKILL, SIGTERM) while the parent computes evaluation j (immediately, or 0.6 s later while the parent waits for the next request), for j = 0..2 (quick) / every j (thorough) of several "
    "configurations, and the evaluator raises (ValueError, OSError subclasses, KeyError, a custom exception, KeyboardInterrupt, SystemExit) at evaluation j; one configuration has an evaluation that takes 11 s. Oracle: never OPTIMIZER_STEP_FINISHED after a kill, the "
    "step returns within 30 s of the kill, no optimizer process is left running afterwards, the evaluator's exception "
    "reaches the caller. One run is made from the orphaned child of a process that imported ropt, forked and exited. Error reports: a backend plug-in (found by both processes through its entry point) that, after k "
    "evaluations, raises with / without a message, fails a bare assert, or leaves the process with exit status 3: the run ends "
    "with an error within 40 s and no process is left. Non-trivial: an equality run with >=3 evaluations, or any crash point."
)
ASSUMPTIONS = [
    "the kill schedule is owned at message granularity (the child is killed while it waits for the answer to request j)",
    "a zombie (exited, not yet reaped) child does not count as a running optimizer process",
    "the 30 s no-hang bound is the only verdict that uses the clock (the parent polls every 0.1 s)",
]

CONFIGS: dict[str, dict[str, Any]] = {
    "slsqp": {"optimizer": {"method": "slsqp", "options": {"maxiter": 4}}},
    "slsqp-constrained-masked": {
        "optimizer": {"method": "slsqp", "options": {"maxiter": 4}, "speculative": True},
        "variables": {"mask": [True, False, True]},
        "nonlinear_constraints": {"lower_bounds": [-1.0], "upper_bounds": [0.5]},
        "linear_constraints": {"coefficients": [[1.0, 0.0, 1.0]], "lower_bounds": [-2.0], "upper_bounds": [1.5]}},
    "slsqp-relative-samplers": {
        "optimizer": {"method": "slsqp", "options": {"maxiter": 3}, "split_evaluations": True},
        "gradient": {"number_of_perturbations": 3, "perturbation_magnitudes": 0.02, "perturbation_types": [2, 1, 2],
                     "samplers": [0, 1, 0], "seed": [4, 2]},
        "samplers": [{"method": "sobol"}, {"method": "uniform", "shared": True}]},
    "nelder-mead-budget": {"optimizer": {"method": "nelder-mead", "max_functions": 5}},
    "de-nan": {"optimizer": {"method": "differential_evolution", "options": {"seed": 3, "popsize": 2, "maxiter": 1, "tol": 0.0}},
               "realizations": {"weights": [1.0, 1.0], "realization_min_success": 0}, "_fail": "all-at-2"},
    "de-vectorized": {"optimizer": {"method": "differential_evolution", "parallel": True,
                                    "options": {"seed": 3, "popsize": 2, "maxiter": 1, "tol": 0.0}}},
    "slsqp-too-few": {"optimizer": {"method": "slsqp", "options": {"maxiter": 4}}, "_fail": "one-at-2"},
    "slsqp-user-abort": {"optimizer": {"method": "slsqp", "options": {"maxiter": 4}}, "_abort_at_start": 2},
    "slsqp-scaled": {"optimizer": {"method": "slsqp", "options": {"maxiter": 3}},
                     "nonlinear_constraints": {"lower_bounds": [-1.0], "upper_bounds": [0.5]},
                     "linear_constraints": {"coefficients": [[1.0, -1.0, 0.5]], "lower_bounds": [-3.0], "upper_bounds": [2.0]},
                     "gradient": {"number_of_perturbations": 3, "perturbation_magnitudes": 0.02, "perturbation_types": [1, 2, 1]},
                     "_vscale": ([2.0, 0.5, 4.0], [0.1, 0.0, -0.3])},
    "cobyla-constrained": {"optimizer": {"method": "cobyla", "options": {"maxiter": 6}},
                           "variables": {"lower_bounds": [-float("inf")] * 3, "upper_bounds": [float("inf")] * 3},
                           "nonlinear_constraints": {"lower_bounds": [-1.0], "upper_bounds": [float("inf")]}},
    "slsqp-explicit-start": {"optimizer": {"method": "slsqp", "options": {"maxiter": 3}}, "_start": [0.9, 0.4, -0.7]},
    # messages of more than 4 KiB (one pipe buffer): many variables / linear constraints, a large vectorized population
    "slsqp-large": {"optimizer": {"method": "slsqp", "options": {"maxiter": 2}}, "_n": 30,
                    "linear_constraints": {"coefficients": [[((3 * i + 7 * j) % 5 - 2) * 0.25 for j in range(30)] for i in range(8)],
                                           "lower_bounds": [-50.0] * 8, "upper_bounds": [50.0] * 8},
                    "gradient": {"number_of_perturbations": 2, "perturbation_magnitudes": 0.02}},
    "de-vectorized-large": {"optimizer": {"method": "differential_evolution", "parallel": True,
                                          "options": {"seed": 3, "popsize": 4, "maxiter": 1, "tol": 0.0}}, "_n": 9},
    # the configuration message alone (~100 KiB) is larger than the capacity of a pipe
    "lbfgsb-3000-variables": {"optimizer": {"method": "l-bfgs-b", "options": {"maxiter": 1}}, "_n": 3000,
                              "gradient": {"number_of_perturbations": 1, "perturbation_magnitudes": 0.02}},
    # path-valued options (output directory, redirected output)
    "slsqp-output-dir": {"optimizer": {"method": "slsqp", "options": {"maxiter": 2}}, "_paths": True},
    # text outside ASCII in the configuration (directory and file names)
    "slsqp-output-dir-non-ascii": {"optimizer": {"method": "slsqp", "options": {"maxiter": 2}}, "_paths": "non-ascii"},
    # an output directory that does not exist (yet): whoever wants to write there creates it, the run itself does not need it
    "slsqp-output-dir-missing": {"optimizer": {"method": "slsqp", "options": {"maxiter": 2}}, "_paths": "missing"},
    # option values that are NumPy scalars (as they come out of array arithmetic or YAML/NumPy based front-ends)
    "slsqp-numpy-scalar-options": {"optimizer": {"method": "slsqp", "options": {"maxiter": 3, "ftol": 1e-7}}, "_numpy_options": True},
    # one evaluation takes longer than any time-out inside the protocol (11 s; only slept in the external run)
    "slsqp-slow-evaluation": {"optimizer": {"method": "slsqp", "options": {"maxiter": 2}}, "_sleep": (1, 11.0)},
    "de-explicit-start-masked": {"optimizer": {"method": "differential_evolution", "options": {"seed": 5, "popsize": 2, "maxiter": 1, "tol": 0.0}},
                                 "variables": {"mask": [True, True, False]}, "_start": [-0.5, 0.25, 1.1]},
}


class HangError(Exception):
    pass


def _alarm(signum: int, frame: Any) -> None:  # noqa: ANN401, ARG001
    raise HangError


def child_pids() -> list[int]:
    me = os.getpid()
    out = []
    for entry in os.listdir("/proc"):
        if not entry.isdigit():
            continue
        try:
            with open(f"/proc/{entry}/stat") as fh:
                stat = fh.read()
            with open(f"/proc/{entry}/cmdline") as fh:
                cmd = fh.read()
        except OSError:
            continue
        rest = stat[stat.rindex(")") + 2:].split()
        state, ppid = rest[0], int(rest[1])
        if ppid == me and "ropt_plugin_optimizer" in cmd and state != "Z":
            out.append(int(entry))
    return out


def build(name: str, external: bool) -> tuple[dict[str, Any], AffineEvaluator, int | None]:  # noqa: FBT001
    spec = CONFIGS[name] if name in CONFIGS else {"optimizer": {"method": name}}
    n = spec.get("_n", 3)
    cfg: dict[str, Any] = {
        "variables": {"initial_values": [[0.3, -0.2, 0.6][i % 3] + 0.01 * (i // 3) for i in range(n)], "lower_bounds": [-2.0] * n, "upper_bounds": [2.0] * n},
        "realizations": {"weights": [1.0, 1.0]},
        "gradient": {"number_of_perturbations": 3, "perturbation_magnitudes": 0.02},
    }
    for key, val in spec.items():
        if key.startswith("_"):
            continue
        cfg.setdefault(key, {})
        if isinstance(val, dict):
            cfg[key] = {**cfg[key], **val}
        else:
            cfg[key] = val
    if spec.get("_numpy_options"):
        cfg["optimizer"] = {**cfg["optimizer"], "options": {k: (np.int64(v) if isinstance(v, int) else np.float64(v))
                                                           for k, v in cfg["optimizer"]["options"].items()}}
        cfg["optimizer"]["options"]["disp"] = np.bool_(False)  # (a comparison of NumPy values gives such a boolean)
    if spec.get("_paths"):
        import tempfile

        # (the protocol's delimiter word, or text outside ASCII, inside a string value)
        prefix, stdout = ("c20-Größe-結果-", "ausgabe-é.out") if spec["_paths"] == "non-ascii" else ("c20-out---READY---", "optimizer.out")
        out_dir = tempfile.mkdtemp(prefix=prefix)
        if spec["_paths"] == "missing":
            os.rmdir(out_dir)
            cfg["optimizer"] = {**cfg["optimizer"], "output_dir": os.path.join(out_dir, "not", "created")}
        else:
            cfg["optimizer"] = {**cfg["optimizer"], "output_dir": out_dir, "stdout": stdout}
    if external:
        cfg["optimizer"] = {**cfg["optimizer"], "method": "external/" + cfg["optimizer"]["method"]}
    c_n = 1 if "nonlinear_constraints" in cfg else 0
    a = np.array([[[0.5, -1.0, 0.25]] + [[0.3, 0.2, -0.4]] * c_n, [[1.0, 0.25, -0.5]] + [[-0.2, 0.4, 0.1]] * c_n])
    a = np.concatenate([a * (1.0 + 0.1 * k) for k in range((n + 2) // 3)], axis=2)[:, :, :n]
    ev = AffineEvaluator(a[:, :1], np.zeros((2, 1)), a[:, 1:] if c_n else None, np.zeros((2, c_n)) if c_n else None, quad=1.0)
    if spec.get("_fail") == "all-at-2":
        ev.fail = {(2, r, -1): [("obj", 0)] for r in range(2)}
    elif spec.get("_fail") == "one-at-2":
        ev.fail = {(k, 0, -1): [("obj", 0)] for k in range(2, 40)}
    return cfg, ev, spec.get("_abort_at_start")


class InjectedEvaluatorError(Exception):
    pass


RAISE_TYPES = {"ValueError": ValueError, "FileNotFoundError": FileNotFoundError, "TimeoutError": TimeoutError,
               "KeyError": KeyError, "custom": InjectedEvaluatorError, "KeyboardInterrupt": KeyboardInterrupt, "SystemExit": SystemExit}


def run_config(name: str, external: bool, kill: tuple[Any, ...] | None = None, raise_at: int | None = None,  # noqa: FBT001
               raise_type: str = "ValueError") -> dict[str, Any]:
    cfg, ev, abort_at = build(name, external)
    state: dict[str, Any] = {"killed": None, "pids": []}

    sleep = CONFIGS.get(name, {}).get("_sleep") if external else None

    def hook(call: int, variables: np.ndarray, context: Any) -> None:  # noqa: ANN401, ARG001
        if sleep is not None and call == sleep[0]:
            time.sleep(sleep[1])
        if kill is not None and call == kill[0]:
            pids = child_pids()
            state["pids"] = pids
            if not pids:
                msg = "no optimizer child process found"
                raise HarnessError(msg)
            if len(kill) > 2 and str(kill[2]).startswith("self:"):
                # the process that runs the optimization dies hard (no exception, no clean-up) in the middle of this evaluation
                with open(str(kill[2])[5:] + ".tmp", "w") as fh:
                    fh.write(json.dumps(pids))
                os.rename(str(kill[2])[5:] + ".tmp", str(kill[2])[5:])
                os.kill(os.getpid(), signal.SIGKILL)
            if len(kill) > 2 and kill[2] == "deferred":
                # freeze the child now and let it die 0.6 s later, while the parent is waiting for its next request
                import threading

                for pid in pids:
                    os.kill(pid, signal.SIGSTOP)

                def later() -> None:
                    for pid in pids:
                        try:
                            os.kill(pid, kill[1])
                            os.kill(pid, signal.SIGCONT)
                        except OSError:
                            pass

                threading.Timer(0.6, later).start()
                state["killed"] = time.time() + 0.6
                signal.signal(signal.SIGALRM, _alarm)
                signal.alarm(31)
                return
            for pid in pids:
                os.kill(pid, kill[1])
            deadline = time.time() + 10
            while child_pids() and time.time() < deadline:
                time.sleep(0.02)
            state["killed"] = time.time()
            signal.signal(signal.SIGALRM, _alarm)
            signal.alarm(30)
        if raise_at is not None and call == raise_at:
            state["pids"] = child_pids()
            msg = f"injected evaluator error {call}"
            raise RAISE_TYPES[raise_type](msg)

    ev.hook = hook
    ctx = OptimizerContext(evaluator=ev)
    chunks: list[bytes] = []
    starts = [0]

    def on_start(event: Any) -> None:  # noqa: ANN401, ARG001
        starts[0] += 1
        if abort_at is not None and starts[0] == abort_at + 1:
            raise OptimizationAborted(exit_code=OptimizerExitCode.USER_ABORT)

    def on_finished(event: Any) -> None:  # noqa: ANN401
        from checks.c16_reproducible import walk_arrays

        walk_arrays(list(event.data["results"]), chunks)

    ctx.add_observer(EventType.START_EVALUATION, on_start)
    ctx.add_observer(EventType.FINISHED_EVALUATION, on_finished)
    plan = Plan(ctx)
    step = plan.add_step("optimizer")
    out: dict[str, Any] = {"exc": None, "code": None, "hang": False}
    start = CONFIGS.get(name, {}).get("_start")
    transforms = None
    if CONFIGS.get(name, {}).get("_vscale"):
        from ropt.transforms import OptModelTransforms, VariableScaler

        transforms = OptModelTransforms(variables=VariableScaler(*(np.array(v) for v in CONFIGS[name]["_vscale"])))
    try:
        out["code"] = plan.run_step(step, config=cfg, transforms=transforms, variables=None if start is None else np.array(start))
    except HangError:
        out["hang"] = True
    except HarnessError:
        raise
    except (Exception, KeyboardInterrupt, SystemExit) as exc:  # noqa: BLE001
        out["exc"] = exc
    finally:
        signal.alarm(0)
    out["returned"] = time.time()
    out["killed"] = state["killed"]
    out["pids"] = state["pids"]
    out["calls"] = len(ev.calls)
    req = [np.ascontiguousarray(c["variables"]).tobytes() + np.ascontiguousarray(c["realizations"]).tobytes()
           + np.ascontiguousarray(c["perturbations"]).tobytes() for c in ev.calls]
    out["requests"] = [hashlib.blake2b(r, digest_size=8).hexdigest() for r in req]
    out["results_hash"] = hashlib.blake2b(b"|".join(chunks), digest_size=12).hexdigest()
    # leftover children (give the parent's clean-up a moment)
    deadline = time.time() + 5
    while child_pids() and time.time() < deadline:
        time.sleep(0.1)
    out["leftover"] = child_pids()
    for pid in out["leftover"]:
        try:
            os.kill(pid, signal.SIGKILL)
        except OSError:
            pass
    if isinstance(cfg["optimizer"].get("output_dir"), str) and os.path.basename(cfg["optimizer"]["output_dir"]).startswith("c20-"):
        import shutil

        shutil.rmtree(cfg["optimizer"]["output_dir"], ignore_errors=True)
    return out


STAND_IN = r"""#!/venv/bin/python
import json, os, signal, sys, time
fifo_read, fifo_write, die_after, mode = sys.argv[1], sys.argv[2], int(os.environ["STANDIN_DIE_AFTER"]), os.environ["STANDIN_MODE"]
rfd = os.open(fifo_read, os.O_RDONLY | os.O_NONBLOCK)
wfd = None
def send(obj):
    global wfd
    while wfd is None:
        try:
            wfd = os.open(fifo_write, os.O_WRONLY | os.O_NONBLOCK)
        except OSError:
            time.sleep(0.01)
    os.write(wfd, (json.dumps(obj) + "\n--READY--\n").encode())
def receive():
    buf = b""
    while b"--READY--" not in buf:
        try:
            chunk = os.read(rfd, 65536)
        except BlockingIOError:
            chunk = b""
        if not chunk:
            time.sleep(0.005)
        buf += chunk
requests = ["config", "initial_values"]
for k, request in enumerate(requests, start=1):
    if k == die_after and mode == "reader-gone":
        os.close(rfd)  # the read end goes first, the request is still sent, then the process is gone
        send(request)
        os.kill(os.getpid(), signal.SIGKILL)
    send(request)
    if k == die_after and mode == "after-request":
        os.kill(os.getpid(), signal.SIGKILL)
    receive()
    if k == die_after and mode == "after-answer":
        os.kill(os.getpid(), signal.SIGKILL)
os.kill(os.getpid(), signal.SIGKILL)
"""


def run_standin(case: dict[str, Any]) -> dict[str, Any]:
    """The optimizer process dies after k exchanged messages, before any evaluation (stand-in child that follows the protocol)."""
    import tempfile

    cfg, ev, _ = build(case.get("config", "slsqp"), True)
    with tempfile.TemporaryDirectory() as tmp:
        script = os.path.join(tmp, "ropt_plugin_optimizer")
        with open(script, "w") as fh:
            fh.write(STAND_IN)
        os.chmod(script, 0o755)  # noqa: S103
        old_path = os.environ["PATH"]
        os.environ.update({"PATH": tmp + os.pathsep + old_path, "STANDIN_DIE_AFTER": str(case["at"]), "STANDIN_MODE": case["mode"]})
        ctx = OptimizerContext(evaluator=ev)
        plan = Plan(ctx)
        step = plan.add_step("optimizer")
        out: dict[str, Any] = {"exc": None, "code": None, "hang": False}
        signal.signal(signal.SIGALRM, _alarm)
        signal.alarm(30)
        try:
            out["code"] = plan.run_step(step, config=cfg)
        except HangError:
            out["hang"] = True
        except Exception as exc:  # noqa: BLE001
            out["exc"] = exc
        finally:
            signal.alarm(0)
            os.environ["PATH"] = old_path
    check(not out["hang"], "hang", f"the optimizer process died after {case['at']} exchanged message(s) ({case['mode']}) and the step "
          "did not return within 30 s", case)
    check(out["exc"] is not None or out["code"] != OptimizerExitCode.OPTIMIZER_STEP_FINISHED, "death-reported-as-success",
          f"the optimizer process died after {case['at']} exchanged message(s) but the step returned {out['code']!r}", case)
    check(len(ev.calls) == 0, "harness", "stand-in child never asks for evaluations", case)
    leftover = child_pids()
    for pid in leftover:
        try:
            os.kill(pid, signal.SIGKILL)
        except OSError:
            pass
    check(not leftover, "child-left-running", f"process {leftover} still running", case)
    return {"calls": 0, "code": out["code"], "exc": type(out["exc"]).__name__ if out["exc"] else None}


EXTPLUG = os.path.join(os.path.dirname(os.path.dirname(os.path.abspath(__file__))), "harness", "extplug")


def run_child_error(case: dict[str, Any]) -> dict[str, Any]:
    """A backend that fails inside the optimizer process (plug-in harness/extplug, found through its entry point).

    Run in a fresh interpreter that has the plug-in directory on its path from the start (ropt caches entry points).
    """
    import json
    import subprocess
    import sys

    env = dict(os.environ)
    env["PYTHONPATH"] = EXTPLUG + os.pathsep + env.get("PYTHONPATH", "")
    if case.get("optimize"):  # both processes run with assertions compiled out (python -O / PYTHONOPTIMIZE)
        env["PYTHONOPTIMIZE"] = "1"
    code = ("import json,sys\nfrom checks.c20_external import child_error_inner\n"
            "print('RESULT ' + json.dumps(child_error_inner(json.loads(sys.stdin.read()))))\n")
    proc = subprocess.Popen([sys.executable, "-c", code], stdin=subprocess.PIPE, stdout=subprocess.PIPE, stderr=subprocess.PIPE,  # noqa: S603
                            text=True, env=env, start_new_session=True)
    try:
        stdout, stderr = proc.communicate(json.dumps(case), timeout=150)
    except subprocess.TimeoutExpired:
        os.killpg(proc.pid, signal.SIGKILL)
        proc.communicate()
        check(False, "hang", f"the run with a backend failing in the optimizer process ({case['error']}) did not end within 150 s", case)  # noqa: FBT003
    finally:
        try:
            os.killpg(proc.pid, signal.SIGKILL)
        except OSError:
            pass
    for line in stdout.splitlines():
        if line.startswith("RESULT "):
            res = json.loads(line[7:])
            if res.get("violation"):
                check(False, res["violation"][0], res["violation"][1], case)  # noqa: FBT003
            return res
    msg = f"child-error helper failed: {stderr[-800:]}"
    raise HarnessError(msg)


def child_error_inner(case: dict[str, Any]) -> dict[str, Any]:
    method = f"c20verif/verif-{case['error']}-{case['after']}"
    os.environ["C20VERIF_IN_PARENT"] = str(os.getpid())
    try:
        inproc = run_config(method, False) if case["error"] != "exit3" else None
        signal.signal(signal.SIGALRM, _alarm)
        signal.alarm(40)
        t0 = time.time()
        ext = run_config(method, True)
        took = time.time() - t0
        check(not ext["hang"], "hang", f"the backend in the optimizer process failed ({case['error']}) after {case['after']} evaluation(s) and the step "
              "did not return within 40 s", case)
        check(not ext["leftover"], "child-left-running", f"optimizer process {ext['leftover']} still running after the step returned", case)
        check(ext["calls"] == case["after"], "trace-differs",
              f"{ext['calls']} evaluations, the backend asks for {case['after']} (outcome {ext['code']!r} / {ext['exc']!r})", case)
        if case["error"] == "finish":
            assert inproc is not None
            check(ext["exc"] is None and ext["code"] == inproc["code"], "exit-code-differs", f"in-process {inproc['code']!r}, external {ext['code']!r} / {ext['exc']!r}", case)
            check(ext["requests"] == inproc["requests"] and ext["results_hash"] == inproc["results_hash"], "trace-differs", "external trace differs", case)
        else:
            if inproc is not None:
                check(inproc["exc"] is not None and type(inproc["exc"]).__name__ in ("RuntimeError", "AssertionError", "ValueError"), "harness",
                      f"in-process run of the failing backend: {inproc['code']!r} / {inproc['exc']!r}", case)
            check(ext["exc"] is not None or ext["code"] != OptimizerExitCode.OPTIMIZER_STEP_FINISHED, "error-reported-as-success",
                  f"the backend in the optimizer process failed ({case['error']}) but the step returned {ext['code']!r}", case)
    except Violation as v:
        return {"violation": [v.signature, v.message]}
    finally:
        signal.alarm(0)
    return {"calls": ext["calls"], "code": None if ext["code"] is None else ext["code"].name, "exc": type(ext["exc"]).__name__ if ext["exc"] else None,
            "seconds": round(took, 1)}


def run_daemonized(case: dict[str, Any]) -> dict[str, Any]:
    """The process that imported ropt forks and exits (a daemonizing service); the optimization runs in the orphaned child."""
    import json
    import subprocess
    import sys
    import tempfile

    with tempfile.TemporaryDirectory() as tmp:
        result_file = os.path.join(tmp, "result.json")
        code = ("import json, os, sys\n"
                "import ropt.plugins.optimizer.external\n"
                "from ropt.plugins import PluginManager\nPluginManager()\n"
                "from checks.c20_external import run_config\n"
                "if os.fork() > 0:\n    os._exit(0)\n"
                "os.setsid()\n"
                "a = run_config(sys.argv[1], False)\nb = run_config(sys.argv[1], True)\n"
                "res = {'calls': [a['calls'], b['calls']], 'codes': [str(a['code']), str(b['code'])], 'exc': [repr(a['exc']), repr(b['exc'])],\n"
                "       'same': a['requests'] == b['requests'] and a['results_hash'] == b['results_hash'], 'leftover': b['leftover']}\n"
                "open(sys.argv[2] + '.tmp', 'w').write(json.dumps(res))\nos.rename(sys.argv[2] + '.tmp', sys.argv[2])\n")
        proc = subprocess.Popen([sys.executable, "-c", code, case["config"], result_file], start_new_session=True,  # noqa: S603
                                stdout=subprocess.DEVNULL, stderr=subprocess.DEVNULL)
        proc.wait(timeout=60)
        deadline = time.time() + 150
        while not os.path.exists(result_file) and time.time() < deadline:
            time.sleep(0.2)
        check(os.path.exists(result_file), "hang", "the daemonized run did not end within 150 s", case)
        with open(result_file) as fh:
            res = json.load(fh)
    check(res["exc"][1] == "None", "external-exception", f"daemonized external run raised {res['exc'][1]}", case)
    check(res["codes"][0] == res["codes"][1], "exit-code-differs", f"daemonized: in-process {res['codes'][0]}, external {res['codes'][1]}", case)
    check(res["calls"][0] == res["calls"][1] and res["same"], "trace-differs",
          f"daemonized: {res['calls'][0]} evaluations in-process, {res['calls'][1]} through the external process", case)
    check(not res["leftover"], "child-left-running", f"optimizer process {res['leftover']} still running", case)
    return {"calls": res["calls"][0], "code": res["codes"][0]}


def run_parent_killed(case: dict[str, Any]) -> dict[str, Any]:
    """The process that runs the step is killed (SIGKILL) during an evaluation: the optimizer process that worked for it has nobody
    left to answer it, and must not stay behind (the liveness check of the optimizer process is what ends it)."""
    import subprocess
    import sys
    import tempfile

    def alive(pid: int) -> bool:
        try:
            with open(f"/proc/{pid}/stat") as fh:
                stat = fh.read()
        except OSError:
            return False
        return stat[stat.rindex(")") + 2:].split()[0] != "Z"

    with tempfile.TemporaryDirectory() as tmp:
        pid_file = os.path.join(tmp, "pids.json")
        code = ("import sys\nfrom checks.c20_external import run_config\n"
                "run_config(sys.argv[1], True, kill=(int(sys.argv[2]), 9, 'self:' + sys.argv[3]))\n")
        proc = subprocess.Popen([sys.executable, "-c", code, case["config"], str(case["at"]), pid_file], start_new_session=True,  # noqa: S603
                                stdout=subprocess.DEVNULL, stderr=subprocess.DEVNULL)
        try:
            proc.wait(timeout=120)
        except subprocess.TimeoutExpired:
            proc.kill()
            msg = "the helper process did not end"
            raise HarnessError(msg) from None
        if not os.path.exists(pid_file):  # the run has fewer evaluations than this point
            return {"calls": 0, "skipped": True}
        check(proc.returncode == -signal.SIGKILL, "harness", f"helper ended with {proc.returncode}", case)
        with open(pid_file) as fh:
            pids = json.load(fh)
    deadline = time.time() + 20
    while any(alive(pid) for pid in pids) and time.time() < deadline:
        time.sleep(0.1)
    left = [pid for pid in pids if alive(pid)]
    for pid in left:
        try:
            os.kill(pid, signal.SIGKILL)
        except OSError:
            pass
    check(not left, "orphan-left-running", f"optimizer process {left} is still running 20 s after the process it worked for was killed "
          f"during evaluation {case['at']}", case)
    return {"calls": case["at"] + 1, "code": None}


def run_restart(case: dict[str, Any]) -> dict[str, Any]:
    """One optimizer object started twice: the first start ends because the evaluator raises, the second one (healthy evaluator)
    must behave through the external process exactly as in-process - nothing of the first start is left in the object."""
    from ropt.config.enopt import EnOptConfig
    from ropt.ensemble_evaluator import EnsembleEvaluator
    from ropt.optimization import EnsembleOptimizer
    from ropt.plugins import PluginManager

    outcomes = []
    for external in (False, True):
        cfg, ev, _ = build("slsqp", external)
        config = EnOptConfig.model_validate(cfg)
        state = {"raise_at": case["at"]}

        def hook(call: int, variables: np.ndarray, context: Any, state: dict[str, Any] = state) -> None:  # noqa: ANN401, ARG001
            if state["raise_at"] is not None and call == state["raise_at"]:
                msg = f"injected evaluator error {call}"
                raise InjectedEvaluatorError(msg)

        ev.hook = hook
        manager = PluginManager()
        optimizer = EnsembleOptimizer(config, EnsembleEvaluator(config, None, ev, manager), manager)
        start = np.asarray(config.variables.initial_values, dtype=np.float64)
        signal.signal(signal.SIGALRM, _alarm)
        signal.alarm(120)
        try:
            try:
                first: Any = ("returned", optimizer.start(start.copy()))
            except InjectedEvaluatorError as exc:
                first = ("raised", str(exc))
            n_first = len(ev.calls)
            state["raise_at"] = None
            try:
                second: Any = ("returned", optimizer.start(start.copy()))
            except HangError:
                raise
            except Exception as exc:  # noqa: BLE001
                second = ("raised", f"{type(exc).__name__}: {exc}")
        except HangError:
            check(False, "hang", f"restarting the optimizer object ({'external' if external else 'in-process'}) did not end within 120 s", case)  # noqa: FBT003
        finally:
            signal.alarm(0)
        outcomes.append((first, second, [c["variables"].tobytes() for c in ev.calls[n_first:]], child_pids()))
    (f_in, s_in, t_in, _), (f_ex, s_ex, t_ex, left) = outcomes
    check(not left, "child-left-running", f"optimizer process {left} still running after the second start", case)
    check(f_ex == f_in, "exit-code-differs", f"first start: in-process {f_in}, external {f_ex}", case)
    check(s_ex == s_in, "exit-code-differs", f"second start of the same optimizer object: in-process {s_in}, external {s_ex}", case)
    check(t_ex == t_in, "trace-differs", f"second start: {len(t_in)} evaluations in-process, {len(t_ex)} through the external process", case)
    return {"calls": len(t_in), "code": s_in[1] if s_in[0] == "returned" else None}


def run_unserialisable(case: dict[str, Any]) -> dict[str, Any]:
    """An option value that cannot be sent to the other process (a Generator as DE seed): an error is fine, a leftover process is not."""
    CONFIGS["_unserialisable"] = {"optimizer": {"method": "differential_evolution",
                                                "options": {"seed": np.random.default_rng(3), "popsize": 2, "maxiter": 1, "tol": 0.0}}}
    try:
        inproc = run_config("_unserialisable", False)
        signal.signal(signal.SIGALRM, _alarm)
        signal.alarm(60)
        ext = run_config("_unserialisable", True)
    finally:
        signal.alarm(0)
        CONFIGS.pop("_unserialisable", None)
    check(inproc["exc"] is None, "harness", f"in-process run with a Generator seed failed: {inproc['exc']!r}", case)
    check(not ext["hang"], "hang", "the run with an option value that cannot be serialised did not end within 60 s", case)
    check(ext["exc"] is not None or ext["code"] == inproc["code"], "exit-code-differs", f"in-process {inproc['code']!r}, external {ext['code']!r}", case)
    check(not ext["leftover"], "child-left-running", f"optimizer process {ext['leftover']} still running after the step ended with {ext['exc']!r}", case)
    return {"calls": ext["calls"], "code": ext["code"], "exc": type(ext["exc"]).__name__ if ext["exc"] else None}


def run_framing(case: dict[str, Any]) -> dict[str, Any]:
    """The message layer of the protocol on its own: whatever one end writes the other end reads, whole and unchanged.

    Two communicator objects (the class both the parent and the optimizer process use) joined by a pair of FIFOs; one message
    in flight at a time, as in the protocol. case["lengths"]: total number of bytes (JSON text + delimiter) of each message.
    """
    import tempfile
    import threading
    import time
    from pathlib import Path

    from ropt.plugins.optimizer.external import _JSONPipeCommunicator

    overhead = len(json.dumps({"pad": ""})) + len(f"\n{_JSONPipeCommunicator.DELIMITER}\n")
    received = 0
    with tempfile.TemporaryDirectory(prefix="c20-framing-") as tmp:
        one, two = Path(tmp) / "one", Path(tmp) / "two"
        with _JSONPipeCommunicator(one, two) as reader, _JSONPipeCommunicator(two, one) as writer:
            for i, length in enumerate(case["lengths"]):
                message = {"pad": "".join(chr(97 + (i + j) % 23) for j in range(length - overhead))} if length >= overhead else "ok"
                failure: list[BaseException] = []

                def send(message: Any = message, failure: list[BaseException] = failure) -> None:  # noqa: ANN401
                    try:
                        deadline = time.monotonic() + 20
                        while not writer.write(message):
                            if time.monotonic() > deadline:
                                msg = "write() kept returning False"
                                raise TimeoutError(msg)  # noqa: TRY301
                    except BaseException as exc:  # noqa: BLE001
                        failure.append(exc)

                thread = threading.Thread(target=send, daemon=True)
                thread.start()
                time.sleep(0.002)  # (lets the writer fill the pipe first: the first piece is then as large as it can be)
                got = None
                deadline = time.monotonic() + 20
                while got is None and time.monotonic() < deadline and not failure:
                    got = reader.read()
                thread.join(timeout=20)
                check(not failure, "framing-write-failed", f"message {i} ({length} bytes): write raised {failure[:1]!r}", case)
                check(got is not None, "hang", f"message {i} of {length} bytes (JSON text + delimiter) was written completely but the "
                      "reading end did not deliver it within 20 s", case)
                check(got == message, "framing-corrupted", f"message {i} of {length} bytes arrived changed", case)
                received += 1
    return {"calls": received, "code": None}


def run_case(case: dict[str, Any]) -> dict[str, Any]:
    name = case["config"]
    kind = case["kind"]
    if kind == "framing":
        return run_framing(case)
    if kind == "standin":
        return run_standin(case)
    if kind == "unserialisable":
        return run_unserialisable(case)
    if kind == "daemon":
        return run_daemonized(case)
    if kind == "parent-killed":
        return run_parent_killed(case)
    if kind == "restart":
        return run_restart(case)
    if kind == "child-error":
        return run_child_error(case)
    if kind == "equal":
        a = run_config(name, False)
        signal.signal(signal.SIGALRM, _alarm)
        signal.alarm(120)  # (run_config clears the alarm; an external run takes a few seconds, the slow-evaluation one ~15 s)
        b = run_config(name, True)
        if a["exc"] is not None:
            raise a["exc"]
        check(not b["hang"], "hang", "the external run did not end within 120 s (the in-process run of the same configuration ended normally)", case)
        check(b["exc"] is None, "external-exception", f"external run raised {b['exc']!r}", case)
        check(b["code"] == a["code"], "exit-code-differs", f"in-process {a['code']!r}, external {b['code']!r}", case)
        check(b["calls"] == a["calls"], "trace-differs", f"{a['calls']} evaluations in-process, {b['calls']} through the external process", case)
        for i, (x, y) in enumerate(zip(a["requests"], b["requests"])):
            check(x == y, "trace-differs", f"evaluator request {i} differs between in-process and external run", case)
        check(a["results_hash"] == b["results_hash"], "results-differ", "delivered results differ between in-process and external run", case)
        check(not b["leftover"], "child-left-running", f"optimizer process {b['leftover']} still running after the step returned", case)
        return {"calls": a["calls"], "code": a["code"]}
    if kind == "kill":
        out = run_config(name, True, kill=(case["at"], case["signal"], case.get("mode", "immediate")))
        if out["killed"] is None:  # the run has fewer evaluations than this kill point: nothing to decide
            return {"calls": out["calls"], "code": out["code"], "skipped": True}
        check(not out["hang"], "hang", "the step did not return within 30 s after the optimizer process was killed", case)
        check(out["exc"] is not None or out["code"] not in (OptimizerExitCode.OPTIMIZER_STEP_FINISHED,), "death-reported-as-success",
              f"the optimizer process was killed with signal {case['signal']} during evaluation {case['at']} but the step returned {out['code']!r}", case)
        check(not out["leftover"], "child-left-running", f"optimizer process {out['leftover']} still running", case)
        return {"calls": out["calls"], "code": out["code"], "exc": type(out["exc"]).__name__ if out["exc"] else None}
    rtype = case.get("raise_type", "ValueError")
    out = run_config(name, True, raise_at=case["at"], raise_type=rtype)
    if out["calls"] < case["at"] or (out["exc"] is None and out["calls"] <= case["at"]):
        return {"calls": out["calls"], "skipped": True}
    check(out["exc"] is not None, "evaluator-exception-swallowed", f"the evaluator raised at evaluation {case['at']} but the step returned {out['code']!r}", case)
    check(type(out["exc"]) is RAISE_TYPES[rtype] and "injected evaluator error" in str(out["exc"]), "evaluator-exception-changed",
          f"the evaluator's {rtype} arrived as {type(out['exc']).__name__}: {out['exc']}", case)
    check(not out["leftover"], "child-left-running", f"optimizer process {out['leftover']} still running after the evaluator raised", case)
    return {"calls": out["calls"]}


def run_shard(item: dict[str, Any]) -> Collector:
    col = Collector(ID)
    case = dict(item)
    info: dict[str, Any] = {}

    def go() -> None:
        info.update(run_case(case))

    try:
        guard_call(col, case, go)
    except HarnessError as exc:
        col.errors.append(str(exc))
    nontrivial = not info.get("skipped") and ((case["kind"] != "equal") or info.get("calls", 0) >= 3)  # noqa: PLR2004
    col.case(case, nontrivial=nontrivial, classes=(f"kind={case['kind']}", f"config={case['config']}",
                                                    f"code={getattr(info.get('code'), 'name', info.get('exc'))}"), sample={**case, **{k: str(v) for k, v in info.items()}})
    return col


def shards(tier: str, seed: int) -> list[dict[str, Any]]:  # noqa: ARG001
    items: list[dict[str, Any]] = [{"kind": "equal", "config": name} for name in CONFIGS]
    for at in (1, 2):
        for mode in ("after-request", "after-answer", "reader-gone"):
            items.extend({"kind": "standin", "config": "slsqp", "at": at, "mode": mode, "try": t} for t in range(2 if tier == "quick" else 6))
            # (a large configuration: the parent needs much longer to prepare its answer than the optimizer process needs to die)
            items.extend({"kind": "standin", "config": "lbfgsb-3000-variables", "at": at, "mode": mode, "try": t} for t in range(1 if tier == "quick" else 3))
    errors = [("empty", 0), ("empty", 1), ("assert", 2), ("message", 1), ("exit3", 1), ("finish", 2)] if tier == "quick" else [
        (e, k) for e in ("empty", "assert", "message", "exit3", "finish") for k in (0, 1, 2, 3)]
    items.extend({"kind": "child-error", "config": "failing-backend", "error": e, "after": k} for e, k in errors)
    items.extend({"kind": "child-error", "config": "failing-backend", "error": e, "after": k, "optimize": True}
                 for e, k in ([("message", 1), ("empty", 0)] if tier == "quick" else [(e, k) for e in ("message", "empty", "exit3", "finish") for k in (0, 1, 2)]))
    items.append({"kind": "daemon", "config": "slsqp"})
    items.extend({"kind": "restart", "config": "slsqp", "at": at} for at in ((1, 3) if tier == "quick" else range(5)))
    items.extend({"kind": "parent-killed", "config": "slsqp", "at": at} for at in ((0, 2) if tier == "quick" else range(6)))
    # message sizes around the capacity of a pipe (64 KiB) and its multiples, every single length in a window, and small ones
    window = 16 if tier == "quick" else 48
    for mult in ((1, 2) if tier == "quick" else (1, 2, 3, 4, 8)):
        centre = 65536 * mult
        lengths = list(range(centre - window, centre + window + 1))
        for start in range(0, len(lengths), 11):
            items.append({"kind": "framing", "config": f"pipe-capacity-x{mult}", "lengths": [40, *lengths[start:start + 11], 4096, 4097]})
    items.append({"kind": "unserialisable", "config": "de-generator-seed"})
    kill_cfgs = ["slsqp"] if tier == "quick" else ["slsqp", "slsqp-constrained-masked", "nelder-mead-budget", "de-vectorized"]
    points = range(3) if tier == "quick" else range(8)
    for name in kill_cfgs:
        limit = {"nelder-mead-budget": 5, "de-vectorized": 3}.get(name, 8)
        for j in points:
            if j >= limit:
                continue
            for sig in (int(signal.SIGKILL), int(signal.SIGTERM)):
                items.append({"kind": "kill", "config": name, "at": j, "signal": sig, "mode": "immediate"})
                items.append({"kind": "kill", "config": name, "at": j, "signal": sig, "mode": "deferred"})
            items.extend({"kind": "raise", "config": name, "at": j, "raise_type": rtype}
                         for rtype in (("ValueError", "FileNotFoundError", "custom", "KeyboardInterrupt") if tier == "quick" else RAISE_TYPES))
    return items


def replay(case: dict[str, Any]) -> None:
    run_case(case)


__all__ = ["Violation"]
