"""C14 - Every run ends with the documented exit code under any failure pattern."""

from __future__ import annotations

import itertools
from typing import Any

import numpy as np

from harness.core import Collector, check, guard_call, run_hypothesis
from harness.ropt_util import AffineEvaluator, ConstraintScaler, ObjectiveScaler
from ropt.enums import EventType, OptimizerExitCode
from ropt.plan import OptimizerContext, Plan
from ropt.results import FunctionResults, GradientResults
from ropt.transforms import OptModelTransforms, VariableScaler

ID = "C14"
LEVEL = "fault_enumeration"
RULE = (
    "fault sequences = (evaluator call index k, set of (realization, unperturbed | perturbation p) rows that return NaN - for "
    "batches (vectorized differential evolution, evaluator steps with several vectors) in all vectors or in chosen vectors only, "
    "persistent from k on | only at k). Exhaustive: optimizer step, R=2, P=2, every k < 6, every row subset of that call, "
    "realization_min_success 0..2, perturbation_min_success 1..2, methods slsqp (plain, split, speculative = functions and gradient in one evaluation), nelder-mead, differential "
    "evolution - exit code and last evaluation predicted exactly from the injected faults; every max_functions from 1 to "
    "the unconstrained run length (prefix property, budget, MAX_FUNCTIONS_REACHED iff stopped early); an evaluator "
    "exception (ValueError and a custom type) at every call (must never be swallowed). Hypothesis: the same with all four filter kinds, both estimators, "
    "variable/objective/constraint transforms, constraints, evaluator steps with batches, where the exit code must be "
    "consistent with the delivered results. Non-trivial: a failure after the first evaluation, or a failure combined with "
    "a filter / transform / evaluator step, or a budget strictly inside the run."
)
ASSUMPTIONS = [
    "exact prediction is made for the mean estimator without filters (where no filter/estimator abort can occur); with filters "
    "or stddev the exit code is checked for consistency with the delivered results and for being a documented code",
    "vectorized differential evolution may exceed max_functions by less than one population batch",
    "an evaluation that a realization filter or the stddev estimator ends with TOO_FEW_REALIZATIONS produces no results at all "
    "(C05: 'ends with TOO_FEW_REALIZATIONS instead of producing a value'): the delivery clause is applied to evaluations that "
    "produced results (too few successes for the thresholds); such an aborted evaluation may only be the last one of the run and "
    "the exit code must be TOO_FEW_REALIZATIONS or MAX_FUNCTIONS_REACHED",
]

METHODS = {
    "slsqp": {"method": "slsqp", "options": {"maxiter": 3}},
    "slsqp-split": {"method": "slsqp", "options": {"maxiter": 3}, "split_evaluations": True},
    "slsqp-speculative": {"method": "slsqp", "options": {"maxiter": 3}, "speculative": True},
    "nelder-mead": {"method": "nelder-mead", "options": {"maxiter": 4}},
    "de": {"method": "differential_evolution", "options": {"seed": 2, "popsize": 2, "maxiter": 1, "tol": 0.0}},
    "de-vec": {"method": "differential_evolution", "parallel": True, "options": {"seed": 2, "popsize": 2, "maxiter": 1, "tol": 0.0}},
}
ALLOW_NAN = {"de", "de-vec"}


def build(case: dict[str, Any]) -> tuple[dict[str, Any], AffineEvaluator, OptModelTransforms | None]:
    r_n, p_n, n = case["R"], case["P"], 2
    c_n = case.get("C", 0)
    cfg: dict[str, Any] = {
        "variables": {"initial_values": case["x0"], "lower_bounds": [-2.0] * n, "upper_bounds": [2.0] * n},
        "optimizer": dict(METHODS[case["method"]]),
        "realizations": {"weights": [1.0] * r_n, "realization_min_success": case["rmin"]},
        "gradient": {"number_of_perturbations": p_n, "perturbation_min_success": case["pmin"], "perturbation_magnitudes": 0.05},
        "function_estimators": [{"method": case.get("estimator", "mean")}],
    }
    if case.get("max_functions") is not None:
        cfg["optimizer"]["max_functions"] = case["max_functions"]
    if case.get("redirect"):  # the optimizer's output is redirected to a file (the redirection is suspended during evaluations)
        import tempfile

        case["_stdout"] = tempfile.NamedTemporaryFile(prefix="c14-out-", suffix=".txt", delete=False).name  # noqa: SIM115
        cfg["optimizer"]["stdout"] = case["_stdout"]
    if case.get("filter"):
        cfg["realization_filters"] = [case["filter"]]
        if case["filter"]["method"].endswith("objective"):
            cfg["objectives"] = {"weights": [1.0], "realization_filters": [0]}
    if c_n:
        cfg["nonlinear_constraints"] = {"lower_bounds": [-5.0] * c_n, "upper_bounds": [np.inf] * c_n}
        if case.get("filter") and case["filter"]["method"].endswith("constraint"):
            cfg["nonlinear_constraints"]["realization_filters"] = [0] * c_n
    transforms = None
    tr = case.get("transforms", "")
    if tr:
        transforms = OptModelTransforms(
            variables=VariableScaler(np.array([2.0, 0.5]), np.array([0.1, 0.0])) if "v" in tr else None,
            objectives=ObjectiveScaler([2.0]) if "o" in tr else None,
            nonlinear_constraints=ConstraintScaler([4.0] * c_n) if "c" in tr and c_n else None)
    a = np.array(case["slopes"], dtype=np.float64).reshape(r_n, 1 + c_n, n)
    ev = AffineEvaluator(a[:, :1], np.zeros((r_n, 1)), a[:, 1:] if c_n else None, np.zeros((r_n, c_n)) if c_n else None, quad=1.0)
    fault = case.get("fault")
    if fault:
        col = ("obj", 0) if fault.get("col", 0) == 0 or not c_n else ("con", 0)
        calls = range(fault["call"], fault["call"] + 60) if fault["persistent"] else [fault["call"]]
        if fault.get("members") is None:
            ev.fail = {(k, r, p): [col] for k in calls for r, p in fault["rows"]}
        else:  # only some vectors of a batch (population members) fail
            ev.fail = {(k, r, p, j): [col] for k in calls for r, p in fault["rows"] for j in fault["members"]}
    if case.get("raise_at") is not None:
        def hook(call: int, variables: np.ndarray, context: Any) -> None:  # noqa: ANN401, ARG001
            if call == case["raise_at"]:
                msg = f"injected evaluator error {call}"
                raise {"ValueError": ValueError, "FileNotFoundError": FileNotFoundError, "TimeoutError": TimeoutError}.get(
                    case.get("raise_type", "ValueError"), InjectedError)(msg)
        ev.hook = hook
    return cfg, ev, transforms


def open_descriptors() -> int:
    import os

    return len(os.listdir("/proc/self/fd"))


def run(case: dict[str, Any]) -> dict[str, Any]:
    before = open_descriptors() if case.get("redirect") else 0
    out = _run(case)
    if case.get("redirect"):
        # a run that leaves descriptors open makes a later run of the same process fail with OSError(EMFILE) - an unrelated
        # internal exception out of run_step after a few hundred optimizations
        after = open_descriptors()
        check(after <= before, "descriptor-leak", f"a run with redirected optimizer output left {after - before} file descriptors open", case)
    return out


def _run(case: dict[str, Any]) -> dict[str, Any]:
    cfg, ev, transforms = build(case)
    ctx = OptimizerContext(evaluator=ev)
    stream: list[tuple[str, Any]] = []
    ctx.add_observer(EventType.START_EVALUATION, lambda e: stream.append(("start", None)))
    ctx.add_observer(EventType.FINISHED_EVALUATION, lambda e: stream.append(("finished", e.data.get("transformed_results", e.data["results"]))))
    pairs: list[tuple[Any, Any]] = []
    ctx.add_observer(EventType.FINISHED_EVALUATION, lambda e: pairs.append((e.data["results"], e.data.get("transformed_results"))))
    plan = Plan(ctx)
    out: dict[str, Any] = {"ev": ev, "stream": stream, "pairs": pairs}
    if case.get("step", "optimizer") == "optimizer":
        step = plan.add_step("optimizer")
        kwargs: dict[str, Any] = {"config": cfg, "transforms": transforms}
    else:
        step = plan.add_step("evaluator")
        kwargs = {"config": cfg, "transforms": transforms, "variables": np.array(case["batch"], dtype=np.float64)}
    try:
        out["code"] = plan.run_step(step, **kwargs)
        out["exc"] = None
    except Exception as exc:  # noqa: BLE001
        if case.get("raise_at") is None or not _chain_has_injected(exc):
            raise
        out["code"] = None
        out["exc"] = exc
    finally:
        if case.get("_stdout"):
            import os

            if os.path.exists(case["_stdout"]):
                os.unlink(case["_stdout"])
            case.pop("_stdout", None)
    return out


class InjectedError(Exception):
    pass


def _chain_has_injected(exc: BaseException | None) -> bool:
    seen = 0
    while exc is not None and seen < 10:  # noqa: PLR2004
        if "injected evaluator error" in str(exc):
            return True
        exc = exc.__cause__ or exc.__context__
        seen += 1
    return False


def fatal_calls(case: dict[str, Any], ev: AffineEvaluator) -> list[int]:
    """Independent prediction (mean estimator, no filter): indices of evaluator calls that must end the run."""
    r_n, p_n = case["R"], case["P"]
    rmin, pmin = min(case["rmin"], r_n), min(case["pmin"], p_n)
    allow_nan = case["method"] in ALLOW_NAN
    fault = case.get("fault")
    fatal: list[int] = []
    last_f_failed = np.zeros(r_n, dtype=bool)
    for k, call in enumerate(ev.calls):
        reals, perts = call["realizations"], call["perturbations"]
        active = fault is not None and (k >= fault["call"] if fault["persistent"] else k == fault["call"])
        bad = {tuple(rp) for rp in fault["rows"]} if active else set()
        has_f, has_g = bool(np.any(perts < 0)), bool(np.any(perts >= 0))
        is_fatal = False
        if has_f:
            nvec = int(np.sum(perts < 0)) // r_n
            for v in range(nvec):
                hit = fault is None or fault.get("members") is None or v in fault["members"]
                f_failed = np.array([hit and (r, -1) in bad for r in range(r_n)])
                ns = int((~f_failed).sum())
                if ns < rmin or (ns == 0 and not allow_nan):
                    is_fatal = True
                last_f_failed = f_failed
        if has_g:
            g_failed = last_f_failed.copy()
            for r in range(r_n):
                ok = sum((r, p) not in bad for p in range(p_n))
                if ok < pmin:
                    g_failed[r] = True
            ns = int((~g_failed).sum())
            if ns < rmin or (ns == 0 and not allow_nan):
                is_fatal = True
        if is_fatal:
            fatal.append(k)
        del reals
    return fatal


def check_documented(case: dict[str, Any], out: dict[str, Any]) -> None:
    if case.get("raise_at") is not None and out["exc"] is not None:
        return
    check(out["exc"] is None, "foreign-exception", f"{type(out['exc']).__name__}: {out['exc']}", case)
    check(isinstance(out["code"], OptimizerExitCode), "no-exit-code", f"run_step returned {out['code']!r}", case)
    allowed = {OptimizerExitCode.TOO_FEW_REALIZATIONS, OptimizerExitCode.MAX_FUNCTIONS_REACHED, OptimizerExitCode.USER_ABORT,
               OptimizerExitCode.OPTIMIZER_STEP_FINISHED, OptimizerExitCode.EVALUATION_STEP_FINISHED}
    check(out["code"] in allowed, "undocumented-code", f"exit code {out['code']!r}", case)


def consistent_with_stream(case: dict[str, Any], out: dict[str, Any]) -> None:
    """TOO_FEW_REALIZATIONS <=> the last evaluation lacks results, or the evaluation itself was aborted."""
    stream = out["stream"]
    allow_nan = case["method"] in ALLOW_NAN
    rmin = min(case["rmin"], case["R"])
    lacking_positions = []
    for i, (kind, results) in enumerate(stream):
        if kind != "finished":
            continue
        lacking = False
        for res in results:
            if isinstance(res, FunctionResults) and res.functions is None:
                lacking = True
            if isinstance(res, GradientResults) and res.gradients is None:
                lacking = True
            if rmin < 1 and not allow_nan and case.get("step", "optimizer") == "optimizer" and bool(np.all(res.realizations.failed_realizations)):
                lacking = True
        if lacking:
            lacking_positions.append(i)
    unmatched = bool(stream) and stream[-1][0] == "start"
    too_few = out["code"] == OptimizerExitCode.TOO_FEW_REALIZATIONS
    if lacking_positions:
        check(too_few, "too-few-not-reported", f"an evaluation lacked functions/gradients but the exit code is {out['code'].name}", case)
        check(lacking_positions[0] == len(stream) - 1, "evaluations-after-failure",
              "further evaluations were started after the evaluation with too few realizations", case)
    elif too_few:
        check(unmatched, "too-few-without-cause",
              "TOO_FEW_REALIZATIONS although every delivered evaluation had functions and gradients and no evaluation was aborted", case)
    if unmatched:
        check(out["code"] in (OptimizerExitCode.TOO_FEW_REALIZATIONS, OptimizerExitCode.MAX_FUNCTIONS_REACHED), "aborted-evaluation-code",
              f"an evaluation was aborted (filter/estimator) but the exit code is {out['code'].name}", case)


def check_delivery_pairs(case: dict[str, Any], out: dict[str, Any]) -> None:
    """Every result of an evaluation is delivered, in the user's domain and - with transforms - in the optimizer's, item by item."""
    for results, transformed in out.get("pairs") or []:
        if transformed is None:
            continue
        check(len(results) == len(transformed), "results-misaligned",
              f"an evaluation delivered {len(transformed)} results in the optimizer domain but {len(results)} in the user domain", case)
        for item, titem in zip(results, transformed):
            same_kind = type(item) is type(titem) and (not isinstance(item, FunctionResults) or (item.functions is None) == (titem.functions is None))
            check(same_kind and bool(np.array_equal(np.asarray(item.realizations.failed_realizations), np.asarray(titem.realizations.failed_realizations))),
                  "results-misaligned", "the user-domain and optimizer-domain results of one evaluation do not correspond item by item", case)


def run_fault_case(case: dict[str, Any]) -> dict[str, Any]:
    out = run(case)
    check_documented(case, out)
    check_delivery_pairs(case, out)
    ev = out["ev"]
    exact = not case.get("filter") and case.get("estimator", "mean") == "mean" and case.get("step", "optimizer") == "optimizer"
    consistent_with_stream(case, out)
    if exact:
        fatal = fatal_calls(case, ev)
        if fatal:
            check(out["code"] == OptimizerExitCode.TOO_FEW_REALIZATIONS, "too-few-not-reported",
                  f"evaluator call {fatal[0]} left too few successful realizations (faults {case.get('fault')}) but the exit code is {out['code'].name}", case)
            check(fatal[0] == len(ev.calls) - 1, "evaluations-after-failure",
                  f"call {fatal[0]} had too few realizations but {len(ev.calls) - 1 - fatal[0]} more evaluator calls followed", case)
            finished = sum(1 for k, _ in out["stream"] if k == "finished")
            check(finished == len(ev.calls), "failing-results-not-delivered",
                  f"{len(ev.calls)} evaluator calls but {finished} FINISHED_EVALUATION events: the failing evaluation was not delivered", case)
        else:
            check(out["code"] != OptimizerExitCode.TOO_FEW_REALIZATIONS, "too-few-without-cause",
                  f"no evaluation had too few realizations (faults {case.get('fault')}) but the run ended with TOO_FEW_REALIZATIONS", case)
    fault = case.get("fault")
    reached = fault is not None and len(ev.calls) > fault["call"] and bool(fault["rows"])
    return {"calls": len(ev.calls), "reached": reached, "code": out["code"]}


def run_evaluator_step_case(case: dict[str, Any]) -> dict[str, Any]:
    out = run(case)
    check_documented(case, out)
    check_delivery_pairs(case, out)
    consistent_with_stream(case, out)
    r_n = case["R"]
    rmin = min(case["rmin"], r_n)
    fault = case.get("fault")
    bad = {tuple(rp) for rp in fault["rows"]} if fault and fault["call"] == 0 else set()
    ns = r_n - sum((r, -1) in bad for r in range(r_n))
    nvec = len(case.get("batch") or [0])
    if fault and fault.get("members") is not None and not any(j < nvec for j in fault["members"]):
        ns = r_n  # the failing vector does not exist in this batch
    if not case.get("filter") and case.get("estimator", "mean") == "mean":
        exp = OptimizerExitCode.TOO_FEW_REALIZATIONS if ns < rmin else OptimizerExitCode.EVALUATION_STEP_FINISHED
        check(out["code"] == exp, "evaluator-step-code", f"{ns} successes, min {rmin}: exit code {out['code'].name}, expected {exp.name}", case)
        check(sum(1 for k, _ in out["stream"] if k == "finished") == 1, "failing-results-not-delivered", "results were not delivered", case)
    return {"calls": len(out["ev"].calls), "reached": bool(bad), "code": out["code"]}


def run_budget_case(case: dict[str, Any]) -> dict[str, Any]:
    base = run({**case, "max_functions": None})
    check_documented(case, base)
    ev0 = base["ev"]
    total_f = sum(sum(isinstance(r, FunctionResults) for r in res) for kind, res in base["stream"] if kind == "finished")
    batch = max((sum(isinstance(r, FunctionResults) for r in res) for kind, res in base["stream"] if kind == "finished"), default=1)
    inside = 0
    for m in range(1, total_f + 2):
        out = run({**case, "max_functions": m})
        sub = {**case, "max_functions": m}
        check_documented(sub, out)
        ev = out["ev"]
        check(len(ev.calls) <= len(ev0.calls), "budget-prefix", f"max_functions={m}: more evaluator calls than the unconstrained run", sub)
        for k, call in enumerate(ev.calls):
            check(bool(np.array_equal(call["variables"], ev0.calls[k]["variables"])), "budget-prefix",
                  f"max_functions={m}: evaluator call {k} differs from the unconstrained run (not a prefix)", sub)
        done = sum(sum(isinstance(r, FunctionResults) for r in res) for kind, res in out["stream"] if kind == "finished")
        check(done <= m + batch - 1, "budget-exceeded", f"max_functions={m}: {done} function evaluations were performed (batch size {batch})", sub)
        proper = len(ev.calls) < len(ev0.calls)
        if proper:
            inside += 1
            check(out["code"] == OptimizerExitCode.MAX_FUNCTIONS_REACHED, "budget-code",
                  f"max_functions={m} stopped the run early ({len(ev.calls)}/{len(ev0.calls)} calls) but the exit code is {out['code'].name}", sub)
            check(done >= m, "budget-stopped-early", f"max_functions={m}: stopped after only {done} function evaluations", sub)
        elif done < m:
            check(out["code"] == base["code"], "budget-code",
                  f"max_functions={m} was not reached ({done} evaluations) but the exit code is {out['code'].name} instead of {base['code'].name}", sub)
        else:
            # the budget equals what the run needs: every evaluation of the unconstrained run was made and delivered, nothing was cut
            same = [(k, len(r or ())) for k, r in out["stream"]] == [(k, len(r or ())) for k, r in base["stream"]]
            check(not same or out["code"] == base["code"], "budget-code",
                  f"max_functions={m} is exactly what the run needs (all {len(ev.calls)} evaluations made and delivered as without a budget) "
                  f"but the exit code is {out['code'].name} instead of {base['code'].name}", sub)
    return {"calls": len(ev0.calls), "inside": inside, "total_f": total_f}


def run_raise_case(case: dict[str, Any]) -> dict[str, Any]:
    base = run({**case, "raise_at": None})
    n = len(base["ev"].calls)
    for k, rtype, redirect in itertools.product(range(n), ("ValueError", "custom", "FileNotFoundError", "TimeoutError"), (False, True)):
        sub = {**case, "raise_at": k, "raise_type": rtype, "redirect": redirect}
        out = run(sub)
        check(out["exc"] is not None, "evaluator-exception-swallowed",
              f"the evaluator raised {rtype} at call {k} but run_step returned {out['code']!r}", sub)
        if rtype in ("FileNotFoundError", "TimeoutError"):
            check(type(out["exc"]).__name__ == rtype and str(out["exc"]) == f"injected evaluator error {k}", "evaluator-exception-changed",
                  f"the evaluator's {rtype} arrived as {type(out['exc']).__name__}: {out['exc']}", sub)
        if rtype == "custom":  # (SciPy itself re-raises TypeError/ValueError of the objective as RuntimeError, chained)
            check(isinstance(out["exc"], InjectedError) and str(out["exc"]) == f"injected evaluator error {k}", "evaluator-exception-changed",
                  f"the evaluator's exception arrived as {type(out['exc']).__name__}: {out['exc']}", sub)
    return {"calls": n}


def default_case(method: str) -> dict[str, Any]:
    return {"kind": "fault", "method": method, "R": 2, "P": 2, "rmin": 2, "pmin": 2, "x0": [0.4, -0.3],
            "slopes": [0.5, -1.0, 1.0, 0.25], "fault": None}


def exhaustive_shard(item: dict[str, Any]) -> Collector:
    col = Collector(ID)
    method = item["method"]
    if item["what"] == "faults":
        base = run(default_case(method))
        ncalls = min(len(base["ev"].calls), 6)
        for k in range(ncalls):
            if k % item["parts"] != item["part"]:
                continue
            labels = sorted({(int(r), int(p)) for r, p in zip(base["ev"].calls[k]["realizations"], base["ev"].calls[k]["perturbations"])})
            for size in range(1, len(labels) + 1):
                for rows in itertools.combinations(labels, size):
                    for rmin, pmin, persistent in itertools.product((0, 1, 2), (1, 2), (False, True)):
                        case = default_case(method)
                        case.update({"rmin": rmin, "pmin": pmin, "fault": {"call": k, "rows": [list(r) for r in rows], "persistent": persistent}})
                        info: dict[str, Any] = {}

                        def go(case: dict[str, Any] = case, info: dict[str, Any] = info) -> None:
                            info.update(run_fault_case(case))

                        guard_call(col, case, go)
                        col.case((method, k, rows, rmin, pmin, persistent), nontrivial=k >= 1 and bool(info.get("reached")),
                                 classes=(f"method={method}", f"call={k}", "persistent" if persistent else "transient",
                                          f"code={getattr(info.get('code'), 'name', None)}"), sample=case)
        if method == "de-vec":  # a single member of the population fails (every position in the batch)
            r_n = default_case(method)["R"]
            for k in range(ncalls):
                if k % item["parts"] != item["part"]:
                    continue
                members = len(base["ev"].calls[k]["realizations"]) // r_n
                for size in range(1, r_n + 1):
                    for rows in itertools.combinations([(r, -1) for r in range(r_n)], size):
                        for j, rmin in itertools.product(range(members), (0, 1, 2)):
                            case = default_case(method)
                            case.update({"rmin": rmin, "fault": {"call": k, "rows": [list(r) for r in rows], "persistent": False, "members": [j]}})
                            info = {}

                            def gom(case: dict[str, Any] = case, info: dict[str, Any] = info) -> None:
                                info.update(run_fault_case(case))

                            guard_call(col, case, gom)
                            col.case((method, k, rows, rmin, "member", j), nontrivial=bool(info.get("reached")),
                                     classes=(f"method={method}", f"call={k}", "single-member-fault", f"code={getattr(info.get('code'), 'name', None)}"),
                                     sample=case)
    elif item["what"] == "filters":
        filters = [{"method": "sort-objective", "options": {"sort": [0], "first": 0, "last": 1}},
                   {"method": "cvar-objective", "options": {"sort": [0], "percentile": 0.5}},
                   {"method": "sort-constraint", "options": {"sort": 0, "first": 0, "last": 0}},
                   {"method": "cvar-constraint", "options": {"sort": 0, "percentile": 1.0}}]
        probe = default_case(method)
        probe.update({"C": 1, "slopes": [0.5, -1.0, 1.0, 0.25, 0.3, 0.2, -0.4, 0.6]})
        base = run(probe)
        for k in range(min(len(base["ev"].calls), 3)):
            labels = sorted({(int(r), int(p)) for r, p in zip(base["ev"].calls[k]["realizations"], base["ev"].calls[k]["perturbations"])})
            for size in range(1, len(labels) + 1):
                for rows in itertools.combinations(labels, size):
                    for flt, est, rmin, tr in itertools.product(filters, ("mean", "stddev"), (0, 1, 2), ("", "voc")):
                        case = dict(probe)
                        case.update({"rmin": rmin, "pmin": 1, "filter": flt, "estimator": est, "transforms": tr,
                                     "fault": {"call": k, "rows": [list(r) for r in rows], "persistent": True, "col": len(rows) % 2}})
                        info = {}

                        def go3(case: dict[str, Any] = case, info: dict[str, Any] = info) -> None:
                            info.update(run_fault_case(case))

                        guard_call(col, case, go3)
                        col.case((method, "flt", k, rows, flt["method"], est, rmin, tr), nontrivial=bool(info.get("reached")),
                                 classes=(f"method={method}", "filters-exhaustive", f"code={getattr(info.get('code'), 'name', None)}"), sample=case)
    elif item["what"] == "budget":
        case = {**default_case(method), "kind": "budget"}
        info = {}
        guard_call(col, case, lambda: info.update(run_budget_case(case)))
        for m in range(info.get("total_f", 0) + 1):
            col.case((method, "budget", m), nontrivial=m < info.get("inside", 0), classes=(f"method={method}", "budget"), sample=case)
    else:
        case = {**default_case(method), "kind": "raise"}
        info = {}
        guard_call(col, case, lambda: info.update(run_raise_case(case)))
        for k in range(info.get("calls", 0)):
            col.case((method, "raise", k), nontrivial=k >= 1, classes=(f"method={method}", "evaluator-exception"), sample=case)
    col.extra["exhaustive"] = True
    return col


def hypothesis_shard(item: dict[str, Any]) -> Collector:
    from hypothesis import strategies as st

    col = Collector(ID)

    @st.composite
    def cases(draw: Any) -> dict[str, Any]:  # noqa: ANN401
        kind = draw(st.sampled_from(["fault", "fault", "fault", "evstep", "budget", "raise"]))
        method = draw(st.sampled_from(list(METHODS)))
        r_n, p_n = draw(st.integers(1, 3)), draw(st.integers(1, 3))
        c_n = draw(st.integers(0, 1)) if method != "nelder-mead" else 0
        case: dict[str, Any] = {"kind": kind, "method": method, "R": r_n, "P": p_n, "C": c_n, "rmin": draw(st.integers(0, r_n)),
                                "pmin": draw(st.integers(1, p_n)), "x0": [draw(st.sampled_from([-1.0, 0.4, 1.2])), draw(st.sampled_from([-0.3, 0.7]))],
                                "slopes": [draw(st.sampled_from([-1.0, 0.25, 0.5, 1.0])) for _ in range(r_n * (1 + c_n) * 2)],
                                "transforms": draw(st.sampled_from(["", "", "v", "o", "c", "voc"])), "fault": None}
        if r_n > 1 and draw(st.booleans()):
            case["estimator"] = draw(st.sampled_from(["mean", "stddev"]))
        if r_n > 1 and draw(st.booleans()):
            fk = draw(st.sampled_from(["sort-objective", "cvar-objective"] + (["sort-constraint", "cvar-constraint"] if c_n else [])))
            opts: dict[str, Any] = {"first": 0, "last": draw(st.integers(0, r_n - 1))} if fk.startswith("sort") else {"percentile": draw(st.sampled_from([0.4, 1.0]))}
            opts["sort"] = [0] if fk.endswith("objective") else 0
            case["filter"] = {"method": fk, "options": opts}
        if kind in ("fault", "evstep"):
            rows = sorted({(draw(st.integers(0, r_n - 1)), draw(st.integers(-1, p_n - 1))) for _ in range(draw(st.integers(1, 4)))})
            case["fault"] = {"call": draw(st.integers(0, 5)), "rows": [list(r) for r in rows], "persistent": draw(st.booleans()),
                             "col": draw(st.integers(0, 1))}
        if kind == "evstep":
            case["step"] = "evaluator"
            case["fault"]["call"] = 0
            case["batch"] = [[draw(st.sampled_from([0.0, 0.5])), 0.1] for _ in range(draw(st.integers(1, 3)))]
        if (kind == "evstep" or (kind == "fault" and method == "de-vec")) and draw(st.booleans()):
            # only some vectors of a batch (population members / evaluator-step vectors) fail
            case["fault"]["members"] = sorted(draw(st.sets(st.integers(0, 3), min_size=1, max_size=2)))
        return case

    def body(case: dict[str, Any]) -> None:
        info = replay_info(case)
        combined = bool(case.get("filter") or case.get("transforms") or case.get("step") == "evaluator")
        if case["kind"] in ("fault", "evstep"):
            nontrivial = bool(info.get("reached")) and (case["fault"]["call"] >= 1 or combined)
        elif case["kind"] == "budget":
            nontrivial = info.get("inside", 0) > 0
        else:
            nontrivial = info.get("calls", 0) > 1
        col.case(case, nontrivial=nontrivial, classes=(
            f"kind={case['kind']}", f"method={case['method']}", "filter" if case.get("filter") else "no-filter",
            f"transforms={case.get('transforms') or 'none'}", f"estimator={case.get('estimator', 'mean')}",
            f"code={getattr(info.get('code'), 'name', None)}"))

    run_hypothesis(col, cases(), body, seed=item["seed"], max_examples=item["examples"])
    return col


def replay_info(case: dict[str, Any]) -> dict[str, Any]:
    kind = case.get("kind", "fault")
    if kind == "budget":
        return run_budget_case(case)
    if kind == "raise":
        return run_raise_case(case)
    if kind == "evstep":
        return run_evaluator_step_case(case)
    return run_fault_case(case)


def shards(tier: str, seed: int) -> list[dict[str, Any]]:
    items: list[dict[str, Any]] = []
    for method in METHODS:
        parts = 6 if method.startswith("slsqp") else 2
        items.extend({"kind": "exh", "what": "faults", "method": method, "part": i, "parts": parts} for i in range(parts))
        items.append({"kind": "exh", "what": "budget", "method": method})
        if method in ("slsqp", "de"):
            items.append({"kind": "exh", "what": "filters", "method": method})
        items.append({"kind": "exh", "what": "raise", "method": method})
    nshard = 8 if tier == "quick" else 16
    examples = 40 if tier == "quick" else 1500
    items.extend({"kind": "hyp", "seed": seed * 1000 + i, "examples": examples} for i in range(nshard))
    return items


def run_shard(item: dict[str, Any]) -> Collector:
    return exhaustive_shard(item) if item["kind"] == "exh" else hypothesis_shard(item)


def replay(case: dict[str, Any]) -> None:
    replay_info(case)
