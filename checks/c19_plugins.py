"""C19 - Plug-in lookup is deterministic, case-insensitive and side-effect free."""

from __future__ import annotations

import itertools
from typing import Any

from harness.core import Collector, Violation, check, guard_call
from ropt.exceptions import ConfigError
from ropt.plugins import PluginManager
from ropt.plugins.base import Plugin

ID = "C19"
LEVEL = "model_checking"
RULE = (
    "operation sequences over add_plugin(plugin in {P1{alpha,beta}, P2{beta,gamma}, P3{alpha,gamma,slsqp; not "
    "discoverable}}, name in case variants incl. a name clash, normal|prioritized) on manager 0 or 1, on top of the real "
    "entry-point plug-ins; after every step ALL 43 lookups (incl. method names that contain a slash, and method names a plug-in matches case-sensitively) (bare names, plugin/method in mixed case, unknown plug-ins and "
    "methods) via get_plugin and is_supported plus plugins() order are compared on BOTH managers with an ordered-list "
    "reference registry. Exhaustive for length <=3 (quick) / <=5 (thorough) for plug-in type 'optimizer', length <=2 for "
    "the five other types; a Hypothesis rule-based state machine adds long random histories with interleaved lookups. "
    "Non-trivial: a sequence with >=2 successful registrations, or a rejected duplicate, or a prioritized registration."
)
ASSUMPTIONS = [
    "the initial registry of a fresh PluginManager (entry-point plug-ins and their order) is taken as the baseline of the model",
    "fake plug-ins lower-case the method name themselves, as all built-in plug-ins do",
]

# An entry-point plug-in with a mixed-case name ('MyExt', every plug-in type) is installed for this check: its directory must be on
# sys.path before the first PluginManager of the process is created (ropt caches the entry points).
import os as _os
import sys as _sys

_EXT = _os.path.join(_os.path.dirname(_os.path.dirname(_os.path.abspath(__file__))), "harness", "extplug19")
if _EXT not in _sys.path:
    _sys.path.insert(0, _EXT)

TYPES = ["optimizer", "sampler", "realization_filter", "function_estimator", "plan_handler", "plan_step"]


CONSULTED: list[str] = []  # tags of the fake plug-ins whose is_supported() was called (in order)


class Fake(Plugin):
    def __init__(self, tag: str, methods: set[str], *, discoverable: bool = True, exact: set[str] | None = None) -> None:  # noqa: D107
        self.tag = tag
        self.methods = methods
        self.discoverable = discoverable
        self.exact = exact or set()  # method names this plug-in matches case-sensitively (how it matches is the plug-in's business)

    def is_supported(self, method: str) -> bool:
        CONSULTED.append(self.tag)
        return method.lower() in self.methods or method in self.exact

    @property
    def allows_discovery(self) -> bool:
        return self.discoverable

    def __repr__(self) -> str:
        return f"Fake({self.tag})"


def universe() -> dict[str, Fake]:
    return {
        "P1": Fake("P1", {"alpha", "beta"}),
        "P2": Fake("P2", {"beta", "gamma"}, exact={"Delta", "sub/Eps"}),
        "P3": Fake("P3", {"alpha", "gamma", "slsqp", "norm", "mean", "tracker", "evaluator", "sort-objective",
                          "sub/alpha", "p1/beta"}, discoverable=False),
    }


ADDS = [("P1", "p1", False), ("P1", "P1", True), ("P2", "p2", False), ("P2", "P2", True), ("P3", "p3", False),
        ("P3", "P3", True), ("P2", "P1", False), ("P1", "myext", False),
        ("P2", "Größe", False), ("P1", "GRÖSSE", False),
        # a plug-in registered under a name that is also one of its method names (the name plays no part in a bare request)
        ("P1", "Beta", False)]
REAL_METHOD = {"optimizer": "slsqp", "sampler": "norm", "realization_filter": "sort-objective", "function_estimator": "mean",
               "plan_handler": "tracker", "plan_step": "evaluator"}


def lookups(ptype: str) -> list[str]:
    real = REAL_METHOD[ptype]
    return ["alpha", "beta", "gamma", "BETA", real, real.upper(), "nope", "p1/alpha", "P1/beta", "p2/alpha", "P2/Gamma", "p3/alpha",
            f"P3/{real}", "zz/alpha", "p1/", f"external/{real}",
            # method names that themselves contain a slash: only the part before the FIRST slash names the plug-in
            "p3/sub/alpha", "P3/p1/beta", "p1/sub/alpha",
            # the method part is handed to the plug-in as written (P2 matches 'Delta' case-sensitively)
            "Delta", "delta", "p2/Delta", "P2/Delta", "p2/delta", "P2/sub/Eps", "p2/sub/eps",
            # the entry-point plug-in installed as 'MyExt'
            "ext-alpha", "myext/ext-alpha", "MyExt/ext-alpha", "MYEXT/EXT-ALPHA", "myext/alpha",
            # a request for a plug-in that does not exist (or does not support the method) is not a bare request for something else:
            # the part before the slash happens to be a method name of a discoverable plug-in
            "alpha/nope", "beta/gamma", "beta/beta", "beta/alpha",
            # 'default' is a method name like any other: the named plug-in decides whether it supports it
            "p1/default", "P2/Default", "p3/default", "myext/default", "zz/default", f"{real}/anything", "gamma/", "default/alpha",
            # non-ASCII names: case-insensitive means str.lower() on both sides (two different keys: 'größe' and 'grösse')
            "größe/beta", "GRößE/beta", "Größe/gamma", "grösse/alpha", "GRÖSSE/beta", "grosse/beta", f"external/scipy/{real}" if ptype == "optimizer" else "p3/Sub/Alpha"]


class Model:
    """Reference registry: ordered list of (lower-case name, plug-in)."""

    def __init__(self, initial: list[tuple[str, Any]]) -> None:  # noqa: D107
        self.entries = list(initial)

    def add(self, name: str, plugin: Any, prioritize: bool) -> bool:  # noqa: ANN401, FBT001
        low = name.lower()
        if any(n == low for n, _ in self.entries):
            return False
        if prioritize:
            self.entries.insert(0, (low, plugin))
        else:
            self.entries.append((low, plugin))
        return True

    def get(self, method: str) -> Any:  # noqa: ANN401
        if "/" in method:
            pname, meth = method.split("/", 1)
            for n, p in self.entries:
                if n == pname.lower():
                    return p if p.is_supported(meth) else None
            return None
        for _, p in self.entries:
            if p.allows_discovery and p.is_supported(method):
                return p
        return None


def observe(case: Any, ptype: str, managers: list[PluginManager], models: list[Model], step: int) -> None:  # noqa: ANN401
    for m_i, (mgr, model) in enumerate(zip(managers, models)):
        got_order = [(n.lower(), id(p)) for n, p in mgr.plugins(ptype)]  # type: ignore[arg-type]
        exp_order = [(n, id(p)) for n, p in model.entries]
        check(got_order == exp_order, "registry-order",
              f"step {step}, manager {m_i}: plugins() = {[n for n, _ in got_order]}, expected {[n for n, _ in exp_order]}", case)
        for method in lookups(ptype):
            exp = model.get(method)
            CONSULTED.clear()
            try:
                got = mgr.get_plugin(ptype, method)  # type: ignore[arg-type]
            except ConfigError:
                got = None
            except Exception as exc:  # noqa: BLE001
                check(False, "wrong-exception",
                      f"step {step}, manager {m_i}: get_plugin({method!r}) raised {type(exc).__name__}({exc}) "
                      "where an unsupported request must raise ConfigError", case)
            if "/" in method:  # 'plugin/method' consults only the named plug-in (nobody, if no plug-in has that name)
                named = [p for n, p in model.entries if n == method.split("/", 1)[0].lower()]
                allowed = {p.tag for p in named if isinstance(p, Fake)}
                check(set(CONSULTED) <= allowed, "others-consulted",
                      f"step {step}, manager {m_i}: get_plugin({method!r}) asked the plug-ins {sorted(set(CONSULTED))} whether they support a method, "
                      f"only {sorted(allowed) or 'nobody'} is named", case)
            try:
                sup = mgr.is_supported(ptype, method)  # type: ignore[arg-type]
            except Exception as exc:  # noqa: BLE001
                check(False, "wrong-exception",
                      f"step {step}, manager {m_i}: is_supported({method!r}) raised {type(exc).__name__}({exc})", case)
            check(got is exp, "lookup",
                  f"step {step}, manager {m_i}: get_plugin({method!r}) -> {got!r}, reference registry gives {exp!r} "
                  f"(order {[n for n, _ in model.entries]})", case)
            check(sup == (exp is not None), "is-supported",
                  f"step {step}, manager {m_i}: is_supported({method!r}) = {sup} but lookup {'succeeds' if exp is not None else 'fails'}", case)


def run_sequence(case: dict[str, Any]) -> dict[str, Any]:
    ptype = case["type"]
    uni = universe()
    managers = [PluginManager(), PluginManager()]
    models = [Model([(n.lower(), p) for n, p in m.plugins(ptype)]) for m in managers]  # type: ignore[arg-type]
    check(any(n == "myext" for n, _ in models[0].entries), "harness", "the entry-point plug-in 'MyExt' was not discovered", case)
    check([n for n, _ in models[0].entries] == [n for n, _ in models[1].entries], "isolation", "fresh managers differ", case)
    observe(case, ptype, managers, models, 0)
    ok = dup = prio = 0
    for step, (m_i, add_i) in enumerate(case["ops"], start=1):
        tag, name, prioritize = ADDS[add_i]
        expect_ok = models[m_i].add(name, uni[tag], prioritize)
        try:
            managers[m_i].add_plugin(ptype, name, uni[tag], prioritize=prioritize)  # type: ignore[arg-type]
            did = True
        except ConfigError:
            did = False
        check(did == expect_ok, "duplicate", f"step {step}: add_plugin({name!r}, {tag}, prioritize={prioritize}) "
              f"{'accepted' if did else 'rejected'}, expected {'accepted' if expect_ok else 'rejected (duplicate name)'}", case)
        ok += did
        dup += not expect_ok
        prio += prioritize and did
        observe(case, ptype, managers, models, step)
    return {"ok": ok, "dup": dup, "prio": prio}


def exhaustive_shard(item: dict[str, Any]) -> Collector:
    col = Collector(ID)
    ops = [(m, a) for m in (0, 1) for a in range(item.get("adds", len(ADDS)))]
    states = transitions = 0
    for length in range(item["max_len"] + 1):
        for idx, seq in enumerate(itertools.product(ops, repeat=length)):
            if length and idx % item["parts"] != item["part"]:
                continue
            if not length and item["part"]:
                continue
            case = {"type": item["type"], "ops": [list(o) for o in seq]}
            info: dict[str, Any] = {}

            def go(case: dict[str, Any] = case, info: dict[str, Any] = info) -> None:
                info.update(run_sequence(case))

            guard_call(col, case, go)
            states += 1
            transitions += length
            nontrivial = bool(info) and (info["ok"] >= 2 or info["dup"] > 0 or info["prio"] > 0)  # noqa: PLR2004
            col.case((item["type"], seq), nontrivial=nontrivial, classes=(f"type={item['type']}", f"len={length}"), sample=case)
    col.extra["exhaustive"] = True
    col.extra["states"] = states
    col.extra["transitions"] = transitions
    col.extra["traces_validated_against_impl"] = states
    return col


def machine_shard(item: dict[str, Any]) -> Collector:
    import hypothesis
    from hypothesis import HealthCheck, settings
    from hypothesis import strategies as st
    from hypothesis.stateful import RuleBasedStateMachine, initialize, rule, run_state_machine_as_test

    col = Collector(ID)
    last: dict[str, Any] = {}

    class Machine(RuleBasedStateMachine):
        @initialize(ptype=st.sampled_from(TYPES))
        def setup(self, ptype: str) -> None:
            self.ptype = ptype
            self.uni = universe()
            self.managers = [PluginManager(), PluginManager()]
            self.models = [Model([(n.lower(), p) for n, p in m.plugins(ptype)]) for m in self.managers]  # type: ignore[arg-type]
            self.trace: list[Any] = [ptype]
            self.stats = {"ok": 0, "dup": 0, "prio": 0}

        def _case(self) -> dict[str, Any]:
            return {"machine_trace": list(self.trace)}

        @rule(m_i=st.integers(0, 1), add_i=st.integers(0, len(ADDS) - 1))
        def add(self, m_i: int, add_i: int) -> None:
            tag, name, prioritize = ADDS[add_i]
            self.trace.append(["add", m_i, add_i])
            expect_ok = self.models[m_i].add(name, self.uni[tag], prioritize)
            try:
                self.managers[m_i].add_plugin(self.ptype, name, self.uni[tag], prioritize=prioritize)  # type: ignore[arg-type]
                did = True
            except ConfigError:
                did = False
            self.stats["ok"] += did
            self.stats["dup"] += not expect_ok
            self.stats["prio"] += prioritize and did
            self._check(did == expect_ok, "duplicate", f"add_plugin({name!r},{tag},{prioritize}) accepted={did}, expected {expect_ok}")

        @rule(m_i=st.integers(0, 1), l_i=st.integers(0, 42), use_supported=st.booleans())
        def lookup(self, m_i: int, l_i: int, use_supported: bool) -> None:  # noqa: FBT001
            method = lookups(self.ptype)[l_i]
            self.trace.append(["lookup", m_i, l_i, use_supported])
            exp = self.models[m_i].get(method)
            if use_supported:
                sup = self.managers[m_i].is_supported(self.ptype, method)  # type: ignore[arg-type]
                self._check(sup == (exp is not None), "is-supported", f"is_supported({method!r}) = {sup}")
            else:
                try:
                    got = self.managers[m_i].get_plugin(self.ptype, method)  # type: ignore[arg-type]
                except ConfigError:
                    got = None
                self._check(got is exp, "lookup", f"get_plugin({method!r}) -> {got!r}, expected {exp!r}")

        @rule()
        def full_observation(self) -> None:
            self.trace.append(["observe"])
            try:
                observe(self._case(), self.ptype, self.managers, self.models, len(self.trace))
            except Violation as v:
                last["v"] = v
                raise

        def _check(self, cond: bool, sig: str, msg: str) -> None:  # noqa: FBT001
            if not cond:
                v = Violation(sig, msg, self._case())
                last["v"] = v
                raise v

        def teardown(self) -> None:
            if hasattr(self, "trace"):
                s = self.stats
                col.case(self.trace, nontrivial=s["ok"] >= 2 or s["dup"] > 0 or s["prio"] > 0,  # noqa: PLR2004
                         classes=("machine", f"type={self.ptype}"))

    try:
        run_state_machine_as_test(
            hypothesis.seed(item["seed"])(Machine),
            settings=settings(max_examples=item["examples"], stateful_step_count=40, deadline=None, database=None,
                              suppress_health_check=list(HealthCheck), report_multiple_bugs=False, print_blob=False),
        )
    except Violation:
        v = last["v"]
        col.violation(v.signature, v.message, v.case)
    return col


def replay(case: dict[str, Any]) -> None:
    if "machine_trace" in case:
        trace = case["machine_trace"]
        ptype = trace[0]
        uni = universe()
        managers = [PluginManager(), PluginManager()]
        models = [Model([(n.lower(), p) for n, p in m.plugins(ptype)]) for m in managers]
        for step, op in enumerate(trace[1:], start=1):
            if op[0] == "add":
                tag, name, prioritize = ADDS[op[2]]
                expect_ok = models[op[1]].add(name, uni[tag], prioritize)
                try:
                    managers[op[1]].add_plugin(ptype, name, uni[tag], prioritize=prioritize)
                    did = True
                except ConfigError:
                    did = False
                check(did == expect_ok, "duplicate", f"step {step}: add {name!r} accepted={did}", case)
            elif op[0] == "lookup":
                method = lookups(ptype)[op[2]]
                exp = models[op[1]].get(method)
                if op[3]:
                    check(managers[op[1]].is_supported(ptype, method) == (exp is not None), "is-supported", f"step {step}: {method}", case)
                else:
                    try:
                        got = managers[op[1]].get_plugin(ptype, method)
                    except ConfigError:
                        got = None
                    check(got is exp, "lookup", f"step {step}: get_plugin({method!r}) -> {got!r}, expected {exp!r}", case)
            else:
                observe(case, ptype, managers, models, step)
        return
    case = dict(case)
    case["ops"] = [tuple(o) for o in case["ops"]]
    run_sequence(case)


def shards(tier: str, seed: int) -> list[dict[str, Any]]:
    items: list[dict[str, Any]] = []
    max_len = 3 if tier == "quick" else 4
    parts = 8 if tier == "quick" else 32
    items.extend({"kind": "exh", "type": "optimizer", "max_len": max_len, "part": i, "parts": parts} for i in range(parts))
    if tier != "quick":  # length 5 on the first seven registrations (ASCII names) only
        items.extend({"kind": "exh", "type": "optimizer", "max_len": 5, "adds": 7, "part": i, "parts": 48} for i in range(48))
    items.extend({"kind": "exh", "type": t, "max_len": 2, "part": 0, "parts": 1} for t in TYPES[1:])
    nshard = 4 if tier == "quick" else 16
    examples = 60 if tier == "quick" else 1500
    items.extend({"kind": "machine", "seed": seed * 1000 + i, "examples": examples} for i in range(nshard))
    return items


def run_shard(item: dict[str, Any]) -> Collector:
    return exhaustive_shard(item) if item["kind"] == "exh" else machine_shard(item)
