"""C13 - Constraint differences and violations are reported exactly for all bound kinds."""

from __future__ import annotations

from typing import Any

import numpy as np

from harness.core import Collector, check, run_hypothesis
from harness.ropt_util import AffineEvaluator, ConstraintScaler, ObjectiveScaler
from ropt.enums import EventType, OptimizerExitCode
from ropt.plan import OptimizerContext, Plan
from ropt.transforms import OptModelTransforms, VariableScaler

ID = "C13"
LEVEL = "exploration"
RULE = (
    "Hypothesis: n in 1..4 variables at points inside and outside their bounds, lower/upper bound vectors with every "
    "finite/infinite mix per side, 0-3 linear constraints (integer-ish matrices, non-zero rows) and 0-3 non-linear "
    "constraints with equality/lower/upper/two-sided/unbounded bounds, a quarter of the cases with values of magnitude 1..1e6 "
    "placed on, 1e-6..1e-4 relative inside or outside a finite bound, R in 1..2 realizations, optional variable / "
    "objective / constraint scaling transforms; optional variable mask (fixed variables keep their bounds); evaluated by an evaluator step in a Plan with 'last' trackers of several "
    "tolerances attached, and once more together with a gradient (EnsembleEvaluator, functions and gradients in one call). Oracle: lower_diff = v - lb, upper_diff = v - ub, violation = max(lb - v, v - ub, 0) in the "
    "user domain for all three groups, present whenever a finite bound exists; tracker accepts iff all violations <= "
    "tolerance. Non-trivial: a group with >=1 infinite and >=1 finite bound, or >=1 violated bound."
)
ASSUMPTIONS = [
    "comparison tolerance 1e-9 relative to the difference plus 1e-12 relative to its operands (cancellation); infinities must match exactly",
    "tracker acceptance is decided without transforms only (the statement does not fix the domain of the tolerance) and "
    "with violations either 0 or clearly above the tolerance",
]
TOLERANCES = [None, 0.0, 1e-10, 0.25, 5.0]


def expect(v: np.ndarray, lb: np.ndarray, ub: np.ndarray) -> tuple[np.ndarray, np.ndarray, np.ndarray]:
    with np.errstate(invalid="ignore"):
        return v - lb, v - ub, np.maximum(np.maximum(lb - v, v - ub), 0.0)


def same(got: Any, exp: np.ndarray, mag: np.ndarray | float = 0.0) -> bool:  # noqa: ANN401
    """mag: magnitude of the operands of the difference (cancellation: rounding scales with the operands, not the result)."""
    got = np.asarray(got, dtype=np.float64)
    if got.shape != exp.shape:
        return False
    fin = np.isfinite(exp)
    extra = np.broadcast_to(np.asarray(mag, dtype=np.float64), exp.shape)
    return bool(np.array_equal(got[~fin], exp[~fin]) and np.all(np.abs(got[fin] - exp[fin]) <= 1e-9 * (1 + np.abs(exp[fin])) + 1e-12 * extra[fin]))


def run_case(case: dict[str, Any]) -> dict[str, Any]:  # noqa: C901, PLR0915
    n, r_n, l_n, c_n = case["n"], case["R"], case["L"], case["C"]
    cfg: dict[str, Any] = {
        "variables": {"initial_values": case["x"], "lower_bounds": case["lb"], "upper_bounds": case["ub"]},
        "realizations": {"weights": [1.0] * r_n},
    }
    if case.get("mask") is not None:  # fixed variables keep their bounds (and their violations)
        cfg["variables"]["mask"] = case["mask"]
    if l_n:
        cfg["linear_constraints"] = {"coefficients": case["A"], "lower_bounds": case["llb"], "upper_bounds": case["lub"]}
    if c_n:
        cfg["nonlinear_constraints"] = {"lower_bounds": case["nlb"], "upper_bounds": case["nub"]}
    transforms = None
    if case["vscale"] is not None or case["voff"] is not None or case["cscale"] is not None or case["oscale"] is not None:
        transforms = OptModelTransforms(
            variables=None if case["vscale"] is None and case["voff"] is None else VariableScaler(
                None if case["vscale"] is None else np.array(case["vscale"]), None if case["voff"] is None else np.array(case["voff"])),
            objectives=None if case["oscale"] is None else ObjectiveScaler([case["oscale"]]),
            nonlinear_constraints=None if case["cscale"] is None or not c_n else ConstraintScaler(case["cscale"]),
        )
    a = np.array(case["slopes"], dtype=np.float64).reshape(r_n, 1 + c_n, n)
    b = np.array(case["offsets"], dtype=np.float64).reshape(r_n, 1 + c_n)
    ev = AffineEvaluator(a[:, :1], b[:, :1], a[:, 1:] if c_n else None, b[:, 1:] if c_n else None)
    ctx = OptimizerContext(evaluator=ev)
    plan = Plan(ctx)
    step = plan.add_step("evaluator")
    trackers = {tol: plan.add_handler("tracker", what="last", constraint_tolerance=tol, sources={step}) for tol in TOLERANCES}
    seen: list[Any] = []
    ctx.add_observer(EventType.FINISHED_EVALUATION, lambda event: seen.append(event.data))
    if case.get("reuse_transform") and transforms is not None and l_n:
        # the same transforms object has meanwhile been used to validate another configuration (e.g. the inner configuration
        # of a nested optimization) with other linear constraints
        from ropt.config.enopt import EnOptConfig as _Cfg

        other = {**cfg, "linear_constraints": {"coefficients": [[7.0 * (1 + j) for j in range(n)] for _ in range(l_n)],
                                               "lower_bounds": [-1.0] * l_n, "upper_bounds": [1.0] * l_n}}
        if case["reuse_transform"] == "before":
            # ... before this configuration is validated (the transforms object then describes this configuration again)
            _Cfg.model_validate(other, context=transforms)
            cfg = _Cfg.model_validate(cfg, context=transforms)  # type: ignore[assignment]
        else:
            first = _Cfg.model_validate(cfg, context=transforms)
            _Cfg.model_validate(other, context=transforms)
            cfg = first  # type: ignore[assignment]
    code = plan.run_step(step, config=cfg, transforms=transforms)
    check(code == OptimizerExitCode.EVALUATION_STEP_FINISHED, "exit-code", f"evaluator step returned {code}", case)
    check(len(seen) == 1 and len(seen[0]["results"]) == 1, "harness", "expected one result", case)
    res = seen[0]["results"][0]
    out = check_result(case, res, ev, "evaluator step")
    # the same point evaluated together with a gradient (as a speculative optimizer does)
    from ropt.config.enopt import EnOptConfig
    from ropt.ensemble_evaluator import EnsembleEvaluator
    from ropt.plugins import PluginManager

    if not isinstance(cfg, dict):
        return {"nontrivial": out["nontrivial"], "violated": out["max_violation"] > 0}
    config = EnOptConfig.model_validate({**cfg, "gradient": {"number_of_perturbations": 2, "perturbation_magnitudes": 0.01, "boundary_types": 1}},
                                        context=transforms)
    both = EnsembleEvaluator(config, transforms, ev, PluginManager()).calculate(
        np.asarray(config.variables.initial_values), compute_functions=True, compute_gradients=True)
    fres = both[0] if transforms is None else both[0].transform_from_optimizer(transforms)
    check_result(case, fres, ev, "function+gradient evaluation")
    if transforms is None:
        for tol, handler in trackers.items():
            held = plan.get(handler, "results")
            max_violation, unsure = out["max_violation"], out["unsure"]
            if tol is None:
                feasible = True
            elif (max_violation == 0.0 and unsure == 0.0) or max_violation + unsure <= 0.5 * tol:
                feasible = True
            elif max_violation - unsure > tol * (1 + 1e-6) + 1e-9:
                feasible = False
            else:
                continue
            check((held is not None) == feasible, "tracker-acceptance",
                  f"tolerance {tol}: max violation {max_violation!r}, result {'accepted' if held is not None else 'rejected'}", case)
    return {"nontrivial": out["nontrivial"], "violated": out["max_violation"] > 0}


def check_result(case: dict[str, Any], res: Any, ev: AffineEvaluator, where: str) -> dict[str, Any]:  # noqa: ANN401, C901
    n, r_n, l_n, c_n = case["n"], case["R"], case["L"], case["C"]
    del n
    x = np.array(case["x"], dtype=np.float64)
    check(bool(np.all(np.abs(np.asarray(res.evaluations.variables) - x) <= 1e-12 * (1 + np.abs(x)))), "variables",
          "user-domain variables differ from the configured point", case)
    info = res.constraint_info
    nontrivial = False
    groups = []
    lb, ub = np.array(case["lb"], dtype=np.float64), np.array(case["ub"], dtype=np.float64)
    groups.append(("bound", x, lb, ub))
    if l_n:
        groups.append(("linear", np.array(case["A"], dtype=np.float64) @ x, np.array(case["llb"], dtype=np.float64),
                       np.array(case["lub"], dtype=np.float64)))
    a = np.array(case["slopes"], dtype=np.float64)
    if c_n:
        w = np.full(r_n, 1.0 / r_n)
        vals = np.array([sum(w[r] * ev.value("con", r, c, x) for r in range(r_n)) for c in range(c_n)])
        check(same(res.functions.constraints, vals, np.abs(vals) + float(np.max(np.abs(x))) * float(np.max(np.abs(a)))), "constraint-values",
              "user-domain constraint values differ", case)
        groups.append(("nonlinear", vals, np.array(case["nlb"], dtype=np.float64), np.array(case["nub"], dtype=np.float64)))
    max_violation = 0.0
    unsure = 0.0  # rounding of the values themselves (only relevant for the near-bound cases of arbitrary magnitude)
    for name, v, lo, hi in groups:
        finite_any = bool(np.isfinite(lo).any() or np.isfinite(hi).any())
        e_lo, e_hi, e_vi = expect(v, lo, hi)
        if e_vi.size:
            max_violation = max(max_violation, float(e_vi.max()))
        mixed = (np.isfinite(lo).any() or np.isfinite(hi).any()) and (np.isinf(lo).any() or np.isinf(hi).any())
        nontrivial = nontrivial or bool(mixed) or bool((e_vi > 0).any())
        got_lo = None if info is None else getattr(info, f"{name}_lower")
        got_hi = None if info is None else getattr(info, f"{name}_upper")
        got_vi = None if info is None else getattr(info, f"{name}_violation")
        if got_lo is None and not finite_any and name == "bound":
            continue  # nothing to report for completely unbounded variables
        check(got_lo is not None and got_hi is not None and got_vi is not None, f"{name}-info-missing",
              f"{where}: {name}: a finite bound exists but no differences/violations are reported", case)
        mag = np.abs(v) + np.where(np.isfinite(lo), np.abs(lo), 0.0) + np.where(np.isfinite(hi), np.abs(hi), 0.0)
        reuse = "-after-transform-reuse" if case.get("reuse_transform") is True and name == "linear" and case.get("vscale") is not None else ""
        if reuse:
            ok = same(got_lo, e_lo, mag) and same(got_hi, e_hi, mag) and same(got_vi, e_vi, mag)
            check(ok, "linear-diff-after-transform-reuse",
                  f"{where}: linear differences {np.asarray(got_lo).tolist()} / {np.asarray(got_hi).tolist()} != {e_lo.tolist()} / {e_hi.tolist()} "
                  "after the transforms object was used to validate another configuration", case)
        check(same(got_lo, e_lo, mag), f"{name}-lower-diff", f"{where}: {name}: lower diff {np.asarray(got_lo).tolist()} != {e_lo.tolist()}", case)
        check(same(got_hi, e_hi, mag), f"{name}-upper-diff", f"{where}: {name}: upper diff {np.asarray(got_hi).tolist()} != {e_hi.tolist()}", case)
        check(same(got_vi, e_vi, mag), f"{name}-violation", f"{where}: {name}: violation {np.asarray(got_vi).tolist()} != {e_vi.tolist()}", case)
        if case.get("near"):
            unsure = max(unsure, 1e-12 * float(np.max(mag, initial=0.0)))
        outside = (v < lo - 1e-12 * mag) | (v > hi + 1e-12 * mag)
        check(bool(np.all(np.asarray(got_vi)[outside] > 0)), f"{name}-violation",
              f"{name}: a value outside a finite bound has no positive violation", case)
    return {"nontrivial": nontrivial, "max_violation": max_violation, "unsure": unsure}


def hypothesis_shard(item: dict[str, Any]) -> Collector:
    from hypothesis import strategies as st

    col = Collector(ID)
    num = st.sampled_from([-3.0, -1.0, -0.5, 0.0, 0.25, 1.0, 2.0, 4.5])

    @st.composite
    def bounds(draw: Any, size: int) -> tuple[list[float], list[float]]:  # noqa: ANN401
        lo, hi = [], []
        for _ in range(size):
            kind = draw(st.sampled_from(["eq", "lower", "upper", "two", "free", "two"]))
            base = draw(num)
            width = draw(st.sampled_from([0.5, 1.0, 3.0]))
            lo.append(base if kind in ("eq", "lower", "two") else -np.inf)
            hi.append(base if kind == "eq" else (base + width if kind in ("upper", "two") else np.inf))
        return lo, hi

    @st.composite
    def cases(draw: Any) -> dict[str, Any]:  # noqa: ANN401
        n, r_n = draw(st.integers(1, 4)), draw(st.integers(1, 2))
        l_n, c_n = draw(st.integers(0, 3)), draw(st.integers(0, 3))
        lb, ub = draw(bounds(n))
        llb, lub = draw(bounds(l_n))
        nlb, nub = draw(bounds(c_n))
        a_mat = []
        for _ in range(l_n):
            row = [draw(st.sampled_from([0.0, 1.0, -1.0, 2.0, 0.5])) for _ in range(n)]
            if not any(row):
                row[draw(st.integers(0, n - 1))] = 1.0
            a_mat.append(row)
        tkind = draw(st.sampled_from(["none", "none", "var", "all", "con", "var-offsets-only", "var-scales-only"]))
        x = [draw(num) for _ in range(n)]
        slopes = [draw(num) for _ in range(r_n * (1 + c_n) * n)]
        offsets = [draw(num) for _ in range(r_n * (1 + c_n))]
        near = draw(st.integers(0, 3)) == 0
        if near:  # values of any magnitude that sit on, just inside or just outside a finite bound
            big = draw(st.sampled_from([1.0, 1e3, 1e6, 1e6]))
            x = [v * big for v in x]
            xa = np.array(x)
            delta = st.sampled_from([0.0, 1e-6, -1e-6, 3e-6, -3e-6, 1e-4, -1e-4, 0.5])

            def snap(vals: np.ndarray, lo: list[float], hi: list[float]) -> None:
                for i, v in enumerate(vals):
                    d = draw(delta) * max(abs(float(v)), 1.0)
                    side = draw(st.sampled_from(["lo", "hi", "none"]))
                    if side == "lo" and np.isfinite(lo[i]):
                        lo[i] = float(v) + d
                    elif side == "hi" and np.isfinite(hi[i]):
                        hi[i] = float(v) + d
                    if lo[i] > hi[i]:
                        lo[i], hi[i] = hi[i], lo[i]

            snap(xa, lb, ub)
            if l_n:
                snap(np.array(a_mat) @ xa, llb, lub)
            if c_n:
                sl = np.array(slopes).reshape(r_n, 1 + c_n, n)
                of = np.array(offsets).reshape(r_n, 1 + c_n)
                snap(np.mean(sl[:, 1:] @ xa + of[:, 1:], axis=0), nlb, nub)
        mask = None
        if n > 1 and draw(st.integers(0, 2)) == 0:
            mask = [draw(st.booleans()) for _ in range(n)]
            if not any(mask):
                mask[draw(st.integers(0, n - 1))] = True
        case = {
            "reuse_transform": tkind in ("var", "all", "var-scales-only") and l_n > 0 and draw(st.sampled_from([False, False, False, True, "before"])),
            "mask": mask, "near": near,
            "n": n, "R": r_n, "L": l_n, "C": c_n, "x": x, "lb": lb, "ub": ub,
            "A": a_mat, "llb": llb, "lub": lub, "nlb": nlb, "nub": nub,
            "slopes": slopes, "offsets": offsets,
            "vscale": [draw(st.sampled_from([0.5, 2.0, 10.0])) for _ in range(n)] if tkind in ("var", "all", "var-scales-only") else None,
            "voff": [draw(st.sampled_from([0.0, 1.0, -2.0])) for _ in range(n)] if tkind in ("var", "all", "var-offsets-only") else None,
            "oscale": draw(st.sampled_from([2.0, 0.1])) if tkind == "all" else None,
            "cscale": [draw(st.sampled_from([0.5, 4.0])) for _ in range(c_n)] if tkind in ("all", "con") and c_n else None,
        }
        if case["reuse_transform"] == "before" and draw(st.booleans()):
            # rows whose largest scaled coefficient is exactly one (scales 0.5 / 2 / 10 applied to 2 / 0.5 / 0.1-like entries):
            # the row scaling of this configuration is 'nothing to do', that of the configuration validated before is not
            vs = case["vscale"]
            for row in case["A"]:
                lead = draw(st.integers(0, n - 1))
                for j in range(n):
                    row[j] = (draw(st.sampled_from([1.0, -1.0])) if j == lead else draw(st.sampled_from([0.0, 0.25, -0.5]))) / vs[j]
            case["normalized_rows"] = True
        return case

    def body(case: dict[str, Any]) -> None:
        info = run_case(case)
        mixed_var = any(np.isfinite(case["lb"] + case["ub"])) and any(np.isinf(case["lb"])) and any(np.isinf(case["ub"]))
        col.case(case, nontrivial=info["nontrivial"], classes=(
            "violated" if info["violated"] else "feasible", f"L={case['L']}", f"C={case['C']}",
            "transforms" if case["vscale"] or case["voff"] or case["cscale"] else "plain",
            "bounds-inf-both-sides" if mixed_var else "bounds-other", ("transforms-object-used-before" if case.get("reuse_transform") == "before" else "transforms-object-reused") if case.get("reuse_transform") else "transforms-object-fresh", "fixed-variables" if case["mask"] and not all(case["mask"]) else "all-free",
            ("near-bound-large-magnitude" if max(abs(v) for v in case["x"]) > 100 else "near-bound") if case["near"] else "generic-bounds"))  # noqa: PLR2004

    run_hypothesis(col, cases(), body, seed=item["seed"], max_examples=item["examples"])
    return col


def shards(tier: str, seed: int) -> list[dict[str, Any]]:
    nshard = 8 if tier == "quick" else 16
    examples = 200 if tier == "quick" else 4000
    return [{"seed": seed * 1000 + i, "examples": examples} for i in range(nshard)]


def run_shard(item: dict[str, Any]) -> Collector:
    return hypothesis_shard(item)


def replay(case: dict[str, Any]) -> None:
    run_case(case)
