"""C15 - Event streams are well formed and aborts latch the plan, at every abort point."""

from __future__ import annotations

from typing import Any

import numpy as np

from harness.core import Collector, check, guard_call, run_hypothesis
from harness.ropt_util import AffineEvaluator
from ropt.config.enopt import EnOptConfig
from ropt.enums import EventType, OptimizerExitCode
from ropt.exceptions import OptimizationAborted, PlanAborted
from ropt.plan import Event, OptimizerContext, Plan
from ropt.plugins import PluginManager
from ropt.plugins.plan.base import PlanHandlerPlugin, ResultHandler

ID = "C15"
LEVEL = "fault_enumeration"
RULE = (
    "scenarios {single optimizer step, single evaluator step, optimizer step followed by evaluator step, evaluator step "
    "followed by optimizer step, nested plan (outer optimizer, inner optimizer on the complementary variables), a BasicOptimizer "
    "object with results and abort callbacks run three times in every history over {finishes, aborted at check 1/2, evaluator raises in call 0/1}} x "
    "{plain, evaluation failures leading to TOO_FEW_REALIZATIONS, max_functions stop} x {slsqp, nelder-mead}; every plan "
    "level carries two recording handlers (injected plan_handler plug-in) and two observers are subscribed to every event "
    "type. First the unaborted run is recorded, then the USER_ABORT is raised at EVERY (emission index, receiver) pair of "
    "that run - handlers and observers - and inside EVERY evaluator call (exhaustive over the bounded runs); Hypothesis "
    "adds random problem data and budgets. Oracle: bracket grammar per step, exactly-once delivery in the order own "
    "handlers -> ancestor handlers -> observers, USER_ABORT exit code, aborted flags of plan and parent, PlanAborted on "
    "the next step and on re-entering the plan through its function. Non-trivial: an abort point other than 'first FINISHED_EVALUATION' and 'second START_EVALUATION'."
)
ASSUMPTIONS = [
    "runs are deterministic, so the unaborted run enumerates the abort points of the aborted ones",
    "at the emission where a receiver aborts, the receivers after it do not get that event (the exception propagates)",
]

STEP_START = {EventType.START_OPTIMIZER_STEP, EventType.START_EVALUATOR_STEP}
STEP_END = {EventType.FINISHED_OPTIMIZER_STEP, EventType.FINISHED_EVALUATOR_STEP}


class Controller:
    def __init__(self, abort_at: tuple[int, str] | None, abort_call: int | None) -> None:  # noqa: D107
        self.abort_at = abort_at
        self.abort_call = abort_call
        self.current: Event | None = None
        self.index = -1
        self.log: list[tuple[int, str, EventType, Any]] = []
        self.aborted_at: int | None = None
        self.latched: list[tuple[int, str, EventType, Any, bool]] = []  # plan.aborted as seen by a handler when it receives an event

    def deliver(self, receiver: str, event: Event) -> None:
        if event is not self.current:
            self.current = event
            self.index += 1
        self.log.append((self.index, receiver, event.event_type, event.source))
        if self.abort_at == (self.index, receiver):
            self.aborted_at = self.index
            raise OptimizationAborted(exit_code=OptimizerExitCode.USER_ABORT)


class RecordingHandler(ResultHandler):
    def __init__(self, plan: Plan, *, controller: Controller, tag: str) -> None:  # noqa: D107
        super().__init__(plan)
        self._controller = controller
        self._tag = tag

    def handle_event(self, event: Event) -> None:
        idx = self._controller.index + (0 if event is self._controller.current else 1)
        self._controller.latched.append((idx, self._tag, event.event_type, event.source, bool(self.plan.aborted)))
        self._controller.deliver(self._tag, event)

    def __getitem__(self, key: str) -> Any:  # noqa: ANN401
        return None

    def __setitem__(self, key: str, value: Any) -> None:  # noqa: ANN401
        pass


class RecorderPlugin(PlanHandlerPlugin):
    def create(self, name: str, plan: Plan, **kwargs: Any) -> ResultHandler:  # noqa: ANN401, ARG002
        return RecordingHandler(plan, **kwargs)

    def is_supported(self, method: str) -> bool:
        return method.lower() == "recorder"


def make_config(case: dict[str, Any], mask: list[bool] | None, budget: int | None) -> EnOptConfig:
    cfg: dict[str, Any] = {
        "variables": {"initial_values": case["x0"], "lower_bounds": [-2.0] * 2, "upper_bounds": [2.0] * 2},
        "optimizer": {"method": case["method"], "speculative": case["method"] == "slsqp" and case["speculative"]},
        "realizations": {"weights": [1.0, 1.0], "realization_min_success": 2},
        "gradient": {"number_of_perturbations": 2, "perturbation_magnitudes": 0.05},
    }
    if budget is not None:
        cfg["optimizer"]["max_functions"] = budget
    if mask is not None:
        cfg["variables"]["mask"] = mask
    return EnOptConfig.model_validate(cfg)


def execute(case: dict[str, Any], abort_at: tuple[int, str] | None, abort_call: int | None) -> dict[str, Any]:  # noqa: C901, PLR0915
    ctl = Controller(abort_at, abort_call)
    a = np.array(case["slopes"], dtype=np.float64).reshape(2, 1, 2)
    ev = AffineEvaluator(a, np.zeros((2, 1)), quad=1.0)
    if case["variant"] == "failures":
        ev.fail = {(case["fail_call"], 0, -1): [("obj", 0)]}

    def hook(call: int, variables: np.ndarray, context: Any) -> None:  # noqa: ANN401, ARG001
        if ctl.abort_call is not None and call == ctl.abort_call:
            ctl.aborted_at = ctl.index
            raise OptimizationAborted(exit_code=OptimizerExitCode.USER_ABORT)

    ev.hook = hook
    manager = PluginManager()
    manager.add_plugin("plan_handler", "rec", RecorderPlugin())
    ctx = OptimizerContext(evaluator=ev, plugin_manager=manager)
    for et in EventType:
        ctx.add_observer(et, lambda e: ctl.deliver("o:0", e))
        ctx.add_observer(et, lambda e: ctl.deliver("o:1", e))
    budget = case["budget"] if case["variant"] == "budget" else 6
    out: dict[str, Any] = {"codes": [], "exceptions": [], "plans": {}, "step_plan": {}}

    ctx2 = OptimizerContext(evaluator=ev, plugin_manager=manager)  # a second context: its observers belong to plans rooted there
    for et in EventType:
        ctx2.add_observer(et, lambda e: ctl.deliver("o2:0", e))

    bare = case["scenario"] == "nested-bare-inner"
    ctx3 = OptimizerContext(evaluator=ev, plugin_manager=manager)  # nobody observes FINISHED_EVALUATION here
    for et in EventType:
        if et != EventType.FINISHED_EVALUATION:
            ctx3.add_observer(et, lambda e: ctl.deliver("o:0", e))
            ctx3.add_observer(et, lambda e: ctl.deliver("o:1", e))
    out["no_handlers"] = {"inner"} if bare else set()
    out["unobserved"] = {EventType.FINISHED_EVALUATION} if bare else set()

    def new_plan(tag: str, parent_tag: str | None = None) -> Plan:
        plan = Plan(ctx3 if bare else (ctx2 if (tag == "inner" and case["scenario"] == "nested-own-context") else ctx))
        if tag not in out["no_handlers"]:
            for k in range(2):
                plan.add_handler("rec/recorder", controller=ctl, tag=f"h:{tag}:{k}")
        out["plans"][tag] = (plan, parent_tag)
        return plan

    def run_step(plan: Plan, step: Any, **kwargs: Any) -> None:  # noqa: ANN401
        try:
            out["codes"].append((step, plan.run_step(step, **kwargs)))
        except PlanAborted:
            out["codes"].append((step, "PlanAborted"))
        except OptimizationAborted as exc:
            out["exceptions"].append((step, f"OptimizationAborted({exc.exit_code.name}) escaped"))
            out["codes"].append((step, "escaped"))

    scenario, _, late = case["scenario"].partition("/")  # '<scenario>/late-observer': a further observer is registered between the two steps

    def add_late_observer() -> None:
        if late:
            for et in EventType:
                ctx.add_observer(et, lambda e: ctl.deliver("o:2", e))
            out["late_from"] = ctl.index + 1

    main = new_plan("main")
    if scenario in ("optimizer", "optimizer+evaluator", "evaluator+optimizer"):
        opt = main.add_step("optimizer")
        out["step_plan"][opt] = "main"
    if scenario in ("evaluator", "optimizer+evaluator", "evaluator+optimizer"):
        evs = main.add_step("evaluator")
        out["step_plan"][evs] = "main"
    cfg = make_config(case, None, budget)
    if scenario == "optimizer":
        run_step(main, opt, config=cfg)
        extra = main.add_step("evaluator")
        out["step_plan"][extra] = "main"
        out["after"] = ("main", extra, cfg)
    elif scenario == "evaluator":
        run_step(main, evs, config=cfg, variables=np.array([case["x0"], [0.5, 0.5]]))
        extra = main.add_step("optimizer")
        out["step_plan"][extra] = "main"
        out["after"] = ("main", extra, cfg)
    elif scenario == "optimizer+evaluator":
        run_step(main, opt, config=cfg)
        add_late_observer()
        run_step(main, evs, config=cfg)
        out["after"] = None
    elif scenario == "evaluator+optimizer":
        run_step(main, evs, config=cfg)
        add_late_observer()
        run_step(main, opt, config=cfg)
        out["after"] = None
    else:  # nested
        inner = new_plan("inner", "main")
        inner_step = inner.add_step("optimizer")
        out["step_plan"][inner_step] = "inner"
        # (bare inner plan: it has no handler of its own, the tracker of the outer plan follows the inner step)
        inner_tracker = (main if bare else inner).add_handler("tracker", sources={inner_step}, constraint_tolerance=None)
        inner_cfg = make_config(case, [False, True], 2)
        outer_cfg = make_config(case, [True, False], budget if case["variant"] == "budget" else 3)

        inner_extra = None
        if scenario == "nested-two-steps":  # the plan function runs a second step without looking at plan.aborted
            inner_extra = inner.add_step("evaluator")
            out["step_plan"][inner_extra] = "inner"

        def inner_fn(plan: Plan, variables: np.ndarray) -> Any:  # noqa: ANN401
            holder = main if bare else plan
            holder.set(inner_tracker, "results", None)
            code = plan.run_step(inner_step, config=inner_cfg, variables=variables)
            out["codes"].append((inner_step, code))
            if inner_extra is not None:
                out["codes"].append((inner_extra, plan.run_step(inner_extra, config=inner_cfg, variables=variables)))
            return holder.get(inner_tracker, "results")

        inner.add_function(inner_fn)
        outer_step = main.add_step("optimizer")
        out["step_plan"][outer_step] = "main"
        out["outer_steps"] = {"main": outer_step}
        out["inner_parent_from"] = [(0, "main")]
        run_step(main, outer_step, config=outer_cfg, nested_optimization=inner)
        if scenario == "nested-reused" and not main.aborted:
            # the same inner plan is now nested under a second outer plan
            main2 = new_plan("main2")
            outer2 = main2.add_step("optimizer")
            out["step_plan"][outer2] = "main2"
            out["outer_steps"]["main2"] = outer2
            out["inner_parent_from"].append((ctl.index + 1, "main2"))
            run_step(main2, outer2, config=outer_cfg, nested_optimization=inner)
        extra = main.add_step("evaluator")
        out["step_plan"][extra] = "main"
        out["after"] = ("main", extra, outer_cfg)
        out["inner_step"], out["outer_step"] = inner_step, outer_step
    out["log"] = ctl.log
    out["emissions"] = ctl.index + 1
    out["aborted_at"] = ctl.aborted_at
    out["calls"] = len(ev.calls)
    out["calls_now"] = lambda: len(ev.calls)
    out["ctl"] = ctl
    return out


def receivers_for(out: dict[str, Any], plan_tag: str, idx: int = 0) -> list[str]:
    names: list[str] = []
    tag: str | None = plan_tag
    while tag is not None:
        if tag not in out.get("no_handlers", ()):
            names += [f"h:{tag}:0", f"h:{tag}:1"]
        parent = out["plans"][tag][1]
        if tag == "inner" and out.get("inner_parent_from"):
            parent = [p for start, p in out["inner_parent_from"] if start <= idx][-1]
        tag = parent
    late = ["o:2"] if out.get("late_from") is not None and idx >= out["late_from"] else []
    return [*names, "o:0", "o:1", *late]


def check_run(case: dict[str, Any], out: dict[str, Any], aborting: bool, label: str) -> None:  # noqa: C901, FBT001, PLR0912, PLR0915
    check(not out["exceptions"], "abort-escaped", f"{label}: {out['exceptions']}", case)
    # ---- delivery: exactly once, in order
    emissions: dict[int, list[tuple[str, EventType, Any]]] = {}
    for idx, receiver, et, source in out["log"]:
        emissions.setdefault(idx, []).append((receiver, et, source))
    stream: list[tuple[EventType, Any]] = []
    for idx in sorted(emissions):
        recs = emissions[idx]
        et, source = recs[0][1], recs[0][2]
        stream.append((et, source))
        plan_tag = out["step_plan"].get(source)
        check(plan_tag is not None, "unknown-source", f"{label}: event from unknown source", case)
        expected = receivers_for(out, plan_tag, idx)
        if et in out.get("unobserved", ()):
            expected = [r for r in expected if not r.startswith("o:")]
        got = [r for r, _, _ in recs]
        if aborting and out["aborted_at"] == idx and out["ctl"].abort_at is not None:
            stop = expected.index(out["ctl"].abort_at[1]) + 1
            expected = expected[:stop]
        check(got == expected, "delivery",
              f"{label}: emission {idx} ({et.name}) was delivered to {got}, expected exactly {expected}", case)
    # ---- bracket grammar per step
    per_step: dict[Any, list[tuple[int, EventType]]] = {}
    for pos, (et, source) in enumerate(stream):
        per_step.setdefault(source, []).append((pos, et))
    for source, evs in per_step.items():
        runs: list[list[tuple[int, EventType]]] = []
        for pos, et in evs:
            if et in STEP_START or not runs:
                runs.append([])
            runs[-1].append((pos, et))
        for run in runs:
            types = [et for _, et in run]
            check(types[0] in STEP_START, "grammar", f"{label}: step stream does not begin with its START event: {[t.name for t in types]}", case)
            check(types[-1] in STEP_END, "grammar-no-finish", f"{label}: step stream does not end with its FINISHED event: {[t.name for t in types]}", case)
            check(sum(t in STEP_START for t in types) == 1 and sum(t in STEP_END for t in types) == 1, "grammar",
                  f"{label}: START/FINISHED step events repeated: {[t.name for t in types]}", case)
            inner = types[1:-1]
            open_eval = False
            unmatched_pos: int | None = None
            for (pos, _), t in zip(run[1:-1], inner):
                if t == EventType.START_EVALUATION:
                    check(not open_eval, "grammar", f"{label}: START_EVALUATION twice in a row: {[x.name for x in types]}", case)
                    open_eval, unmatched_pos = True, pos
                elif t == EventType.FINISHED_EVALUATION:
                    check(open_eval, "grammar", f"{label}: FINISHED_EVALUATION without START_EVALUATION: {[x.name for x in types]}", case)
                    open_eval = False
                else:
                    check(False, "grammar", f"{label}: unexpected event {t.name} inside a step", case)  # noqa: FBT003
            if open_eval:
                ok = aborting and out["aborted_at"] is not None and unmatched_pos is not None and (
                    out["aborted_at"] == sorted(emissions)[unmatched_pos]  # abort at this START_EVALUATION
                    or (out["ctl"].abort_call is not None and out["aborted_at"] == sorted(emissions)[unmatched_pos]))  # inside it
                nested_inside = aborting and case["scenario"].startswith("nested")
                check(ok or nested_inside, "unmatched-start-evaluation",
                      f"{label}: START_EVALUATION without FINISHED_EVALUATION although the abort did not arise at/inside it: "
                      f"{[x.name for x in types]}", case)
    # ---- exit codes and latching
    codes = out["codes"]
    if aborting and out["aborted_at"] is not None:
        real = [c for _, c in codes if c not in ("PlanAborted",)]
        check(OptimizerExitCode.USER_ABORT in real, "exit-code", f"{label}: abort was raised but no step reported USER_ABORT: {codes}", case)
        # the plan in which the abort arose and all its ancestors (at that time) must be latched
        source = next(src for idx, _, _, src in out["log"] if idx == out["aborted_at"])
        tag: str | None = out["step_plan"][source]
        chain: list[str] = []
        while tag is not None:
            chain.append(tag)
            parent = out["plans"][tag][1]
            if tag == "inner" and out.get("inner_parent_from"):
                parent = [p for start_idx, p in out["inner_parent_from"] if start_idx <= out["aborted_at"]][-1]
            tag = parent
        if case["scenario"].startswith("nested"):
            # the outer step whose run contained the abort was ended by the user abort as well
            outer = out["outer_steps"][chain[-1]]
            outer_code = next((c for st, c in codes if st == outer), None)
            check(outer_code == OptimizerExitCode.USER_ABORT, "outer-exit-code",
                  f"{label}: the abort arose in plan '{chain[0]}' but the outer optimizer step returned {outer_code!r} instead of USER_ABORT", case)
        for t in chain:
            check(out["plans"][t][0].aborted, "not-latched", f"{label}: plan '{t}' is not marked aborted after the user abort (chain {chain})", case)
        # the plan is already marked when the FINISHED event of the aborted step is delivered (a handler that starts a further
        # step from there must be refused)
        for idx, tag, et, src, flag in out["ctl"].latched:
            if et in STEP_END and src == source and idx > out["aborted_at"] and tag.startswith(f"h:{chain[0]}:"):
                check(flag, "not-latched", f"{label}: handler {tag} receives {et.name} of the aborted step while plan '{chain[0]}' is not yet "
                      "marked aborted", case)
        # no step of an aborted plan starts after the abort (also not the next step that the function of a nested plan runs)
        for idx, _, et, src in out["log"]:
            if idx > out["aborted_at"] and et in (EventType.START_OPTIMIZER_STEP, EventType.START_EVALUATOR_STEP):
                check(out["step_plan"].get(src) not in chain, "not-latched",
                      f"{label}: a step of the aborted plan '{out['step_plan'].get(src)}' started ({et.name}, emission {idx}) after the abort", case)
        first_abort = next(i for i, (_, c) in enumerate(codes) if c == OptimizerExitCode.USER_ABORT)
        if not case["scenario"].startswith("nested"):
            for i, (_, c) in enumerate(codes):
                if i > first_abort:
                    check(c == "PlanAborted", "not-latched", f"{label}: a step ran after the abort: {codes}", case)
        top = out["plans"][chain[-1]][0]
        probe = top.add_step("evaluator")
        try:
            top.run_step(probe, config=make_config(case, None, 2))
        except PlanAborted:
            pass
        else:
            check(False, "not-latched", f"{label}: a further step ran on plan '{chain[-1]}' although it was aborted", case)  # noqa: FBT003
        # the latch also holds when the plan is entered through its function (as a nested optimization would do)
        for t in chain:
            plan = out["plans"][t][0]
            if t != "inner":
                def probe_fn(plan: Plan, variables: np.ndarray) -> Any:  # noqa: ANN401
                    return plan.run_step(plan.add_step("evaluator"), config=make_config(case, None, 2), variables=variables)
                plan.add_function(probe_fn)
            ncalls = out["calls_now"]()
            try:
                plan.run_function(np.array(case["x0"], dtype=np.float64))
            except PlanAborted:
                pass
            else:
                check(False, "not-latched", f"{label}: the function of the aborted plan '{t}' ran its steps again", case)  # noqa: FBT003
            check(out["calls_now"]() == ncalls, "not-latched", f"{label}: the evaluator was called again through the function of the aborted plan '{t}'", case)
            check(plan.aborted, "not-latched", f"{label}: plan '{t}' lost its aborted flag when its function was run again", case)
    else:
        check(not any(p.aborted for p, _ in out["plans"].values()), "spurious-abort", f"{label}: plan marked aborted without an abort", case)
        check(all(isinstance(c, OptimizerExitCode) and c != OptimizerExitCode.USER_ABORT for _, c in codes), "exit-code",
              f"{label}: unexpected codes without abort: {codes}", case)


def _abort_in_inner(out: dict[str, Any]) -> bool:
    ctl = out["ctl"]
    if out["aborted_at"] is None:
        return False
    for idx, _, _, source in out["log"]:
        if idx == out["aborted_at"]:
            return out["step_plan"].get(source) == "inner"
    return False


def run_basic(case: dict[str, Any]) -> dict[str, Any]:
    """BasicOptimizer: its callbacks are observers; each gets every event once, in every run of the same object -
    whatever the earlier runs of that object did (finished, were aborted, or ended with an exception of the evaluator)."""
    import itertools

    from ropt.plan import BasicOptimizer

    a = np.array(case["slopes"], dtype=np.float64).reshape(2, 1, 2)
    budget = case["budget"] if case["variant"] == "budget" else 6
    points = interesting = 0
    kinds = ["ok", "abort@1", "abort@2", "crash@0", "crash@1"]
    histories = list(itertools.product(kinds, repeat=case.get("basic_runs", 3)))
    if case.get("basic_history") is not None:
        histories = [tuple(case["basic_history"])]
    for history in histories:
        ev = AffineEvaluator(a, np.zeros((2, 1)), quad=1.0)
        log: list[str] = []
        state = {"abort_at": None, "crash_at": None, "checks": 0, "base": 0, "started": 0}

        def hook(call: int, variables: np.ndarray, context: Any, state: dict[str, Any] = state) -> None:  # noqa: ANN401, ARG001
            state["started"] += 1
            if state["crash_at"] is not None and call - state["base"] == state["crash_at"]:
                msg = "injected evaluator crash"
                raise RuntimeError(msg)

        ev.hook = hook

        def on_results(results: Any, log: list[str] = log) -> None:  # noqa: ANN401, ARG001
            log.append("results")

        def want_abort(log: list[str] = log, state: dict[str, Any] = state) -> bool:
            log.append("abort-check")
            state["checks"] += 1
            return state["abort_at"] is not None and state["checks"] == state["abort_at"]

        bo = BasicOptimizer(make_config(case, None, budget), ev)
        bo.set_results_callback(on_results)
        bo.set_abort_callback(want_abort)
        sub = {**case, "basic_history": list(history)}
        for run, kind in enumerate(history):
            ncalls, nlog = len(ev.calls), len(log)
            state.update({"checks": 0, "base": ncalls, "started": 0, "abort_at": int(kind[-1]) if kind.startswith("abort") else None,
                          "crash_at": int(kind[-1]) if kind.startswith("crash") else None})
            if case["variant"] == "failures":
                ev.fail = {(ncalls + case["fail_call"], 0, -1): [("obj", 0)]}
            crashed = False
            try:
                bo.run()
            except RuntimeError as exc:
                check("injected evaluator crash" in str(exc), "harness", f"unexpected RuntimeError {exc}", sub)
                crashed = True
            calls = state["started"]  # evaluator calls that were started (a crashing one included)
            n_res = log[nlog:].count("results")
            n_chk = log[nlog:].count("abort-check")
            label = f"BasicOptimizer run {run + 1} of history {list(history)}"
            aborted = kind.startswith("abort") and n_chk >= state["abort_at"]
            check(crashed == (kind.startswith("crash") and calls > state["crash_at"]), "harness", f"{label}: crash expectation", sub)
            check(n_chk == calls + (1 if aborted else 0), "delivery",
                  f"{label}: {calls} evaluations were started but the abort callback (observer of START_EVALUATION) ran {n_chk} times", sub)
            check(n_res == calls - (1 if crashed else 0), "delivery",
                  f"{label}: {calls - (1 if crashed else 0)} evaluations finished but the results callback (observer of FINISHED_EVALUATION) "
                  f"ran {n_res} times", sub)
            if not crashed:
                if aborted:
                    check(bo.exit_code == OptimizerExitCode.USER_ABORT, "exit-code", f"{label}: exit code {bo.exit_code!r}", sub)
                else:
                    check(bo.exit_code != OptimizerExitCode.USER_ABORT, "exit-code", f"{label}: spurious USER_ABORT", sub)
            points += 1
            interesting += run > 0
    return {"points": points, "interesting": interesting, "emissions": 0}


def run_case(case: dict[str, Any]) -> dict[str, Any]:
    if case["scenario"] == "basic-optimizer":
        return run_basic(case)
    base = execute(case, None, None)
    check_run(case, base, False, "unaborted run")
    points = 0
    interesting = 0
    sel = case.get("abort")  # list of [kind, point] to run only those abort points
    emissions = sorted({idx for idx, *_ in base["log"]})
    by_idx: dict[int, list[str]] = {}
    for idx, receiver, _, _ in base["log"]:
        by_idx.setdefault(idx, []).append(receiver)
    todo: list[tuple[str, Any]] = []
    if sel is None:
        for idx in emissions:
            todo.extend(("event", (idx, r)) for r in by_idx[idx])
        todo.extend(("call", c) for c in range(base["calls"]))
    else:
        todo = [(k, (int(v[0]), str(v[1])) if isinstance(v, (list, tuple)) else int(v)) for k, v in sel]
    types = {idx: et for idx, _, et, _ in base["log"]}
    for kind, point in todo:
        out = execute(case, point if kind == "event" else None, point if kind == "call" else None)
        label = f"abort at {kind} {point}" + (f" ({types[point[0]].name})" if kind == "event" else "")
        check(out["aborted_at"] is not None, "harness", f"{label}: abort point not reached", {**case, "abort": [[kind, list(point) if kind == "event" else point]]})
        check_run({**case, "abort": [[kind, list(point) if kind == "event" else point]]}, out, True, label)
        points += 1
        suite_covered = kind == "event" and (
            (types[point[0]] == EventType.FINISHED_EVALUATION and point[0] == min(i for i, t in types.items() if t == EventType.FINISHED_EVALUATION))
            or (types[point[0]] == EventType.START_EVALUATION and point[1] == "o:0"))
        interesting += not suite_covered
    return {"points": points, "interesting": interesting, "emissions": len(emissions)}


def default_case(scenario: str, variant: str, method: str) -> dict[str, Any]:
    return {"scenario": scenario, "variant": variant, "method": method, "speculative": False, "x0": [0.4, -0.3],
            "slopes": [0.5, -1.0, 1.0, 0.25], "budget": 2, "fail_call": 1}


def exhaustive_shard(item: dict[str, Any]) -> Collector:
    col = Collector(ID)
    case = default_case(item["scenario"], item["variant"], item["method"])
    case["speculative"] = item["speculative"]
    info: dict[str, Any] = {}

    def go() -> None:
        info.update(run_case(case))

    guard_call(col, case, go)
    # every abort point of this scenario counts as one executed case
    n = info.get("points", 0)
    for i in range(n):
        col.case((item["scenario"], item["variant"], item["method"], item["speculative"], i), nontrivial=i < info.get("interesting", 0),
                 classes=(f"scenario={item['scenario']}", f"variant={item['variant']}", f"method={item['method']}"),
                 sample={**case, "abort_points": n})
    col.extra["exhaustive"] = True
    return col


def hypothesis_shard(item: dict[str, Any]) -> Collector:
    from hypothesis import strategies as st

    col = Collector(ID)

    @st.composite
    def cases(draw: Any) -> dict[str, Any]:  # noqa: ANN401
        case = default_case(draw(st.sampled_from(["optimizer", "evaluator", "optimizer+evaluator", "evaluator+optimizer", "optimizer+evaluator/late-observer", "evaluator+optimizer/late-observer", "nested", "nested-reused", "nested-own-context", "nested-two-steps", "nested-bare-inner", "basic-optimizer"])),
                            draw(st.sampled_from(["plain", "failures", "budget"])), draw(st.sampled_from(["slsqp", "nelder-mead"])))
        case["speculative"] = draw(st.booleans())
        case["x0"] = [draw(st.sampled_from([-1.0, 0.0, 0.4, 1.5])), draw(st.sampled_from([-0.3, 0.8]))]
        case["slopes"] = [draw(st.sampled_from([-1.0, 0.25, 0.5, 1.0])) for _ in range(4)]
        case["budget"] = draw(st.integers(1, 4))
        case["fail_call"] = draw(st.integers(0, 3))
        return case

    def body(case: dict[str, Any]) -> None:
        info = run_case(case)
        col.case(case, nontrivial=info["interesting"] > 0, classes=(
            "hyp", f"scenario={case['scenario']}", f"variant={case['variant']}", f"method={case['method']}"))
        col.extra["abort_points_hypothesis"] = col.extra.get("abort_points_hypothesis", 0) + info["points"]

    run_hypothesis(col, cases(), body, seed=item["seed"], max_examples=item["examples"])
    return col


def shards(tier: str, seed: int) -> list[dict[str, Any]]:
    items: list[dict[str, Any]] = []
    for scenario in ("optimizer", "evaluator", "optimizer+evaluator", "evaluator+optimizer", "optimizer+evaluator/late-observer",
                     "evaluator+optimizer/late-observer", "nested", "nested-reused", "nested-own-context", "nested-two-steps", "nested-bare-inner", "basic-optimizer"):
        for variant in ("plain", "failures", "budget"):
            for method in ("slsqp", "nelder-mead"):
                for spec in ((False, True) if method == "slsqp" and tier != "quick" else (False,)):
                    items.append({"kind": "exh", "scenario": scenario, "variant": variant, "method": method, "speculative": spec})
    nshard = 8 if tier == "quick" else 16
    examples = 6 if tier == "quick" else 150
    items.extend({"kind": "hyp", "seed": seed * 1000 + i, "examples": examples} for i in range(nshard))
    return items


def run_shard(item: dict[str, Any]) -> Collector:
    return exhaustive_shard(item) if item["kind"] == "exh" else hypothesis_shard(item)


def replay(case: dict[str, Any]) -> None:
    run_case(case)
