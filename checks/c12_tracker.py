"""C12 - The tracked best result is the feasible optimum over the whole history."""

from __future__ import annotations

import itertools
import math
import uuid
from typing import Any

import numpy as np

from harness.core import Collector, check, guard_call, run_hypothesis
from harness.ropt_util import AffineEvaluator, ObjectiveScaler
from ropt.config.enopt import EnOptConfig
from ropt.enums import EventType
from ropt.plan import BasicOptimizer, Event, OptimizerContext, Plan
from ropt.results import (
    ConstraintInfo,
    FunctionEvaluations,
    FunctionResults,
    Functions,
    GradientEvaluations,
    GradientResults,
    Gradients,
    Realizations,
)
from ropt.transforms import OptModelTransforms, VariableScaler

ID = "C12"
LEVEL = "model_checking"
RULE = (
    "event histories over the alphabet {optimizer-domain objective in {NaN,1,2,2(second object),3}} x {feasible, "
    "infeasible (violation 1.0)} x {tracked source, other source} + {gradient result, result without functions}, built "
    "exactly as the steps build FINISHED_EVALUATION events (results + transformed_results), x {no transform, scaling x2, "
    "sign-flipping (maximization) transform, variable scaling 0.1 / 10 (reported violations differ from the judged ones)} x tolerance {None, 0, 1e-10, 0.5}, observed by a 'best' and a 'last' tracker; "
    "exhaustive for length <=3 (quick) / <=4 full + <=5 reduced alphabet (thorough); Hypothesis adds multi-result events, "
    "external resets of the tracker and real BasicOptimizer runs (SLSQP with constraints, differential evolution with "
    "NaN results, maximization) replayed against their own event stream. Oracle: reference model evaluated after every "
    "event. Non-trivial: a NaN / infeasible / foreign result occurs before a valid one, or a maximizing transform."
)
ASSUMPTIONS = [
    "a result is feasible iff every reported violation <= tolerance (None: always), judged on the optimizer-domain item as the tracker does",
    "'last': results with a NaN objective are neither required nor forbidden (the statement only says 'most recent feasible function result')",
    "ties in the objective: any of the tied results may be held",
    "the held result is compared by identity or by value (variables, weighted objective, violations): a tracker may store a copy",
]

_CFG = EnOptConfig.model_validate({"variables": {"initial_values": [0.0]}})
TRACKED, OTHER = uuid.UUID(int=1), uuid.UUID(int=2)
TRANSFORMS = {"none": None, "scale": OptModelTransforms(objectives=ObjectiveScaler([2.0])),
              "flip": OptModelTransforms(objectives=ObjectiveScaler([-1.0], flip_weighted=True)),
              # variable scaling: reported (user-domain) violations are 0.1x / 10x the ones the tracker has to judge
              "vars-small": OptModelTransforms(variables=VariableScaler(np.array([0.1]), None)),
              "vars-big": OptModelTransforms(variables=VariableScaler(np.array([10.0]), None))}
TOLS = [None, 0.0, 1e-10, 0.5]


def make_result(letter: tuple[Any, ...], level: tuple[float, float] = (0.0, 1.0)) -> FunctionResults | GradientResults:
    """level: (offset, scale) applied to the objective values - which result is the best one does not depend on it."""
    kind = letter[0]
    if kind == "grad":
        return GradientResults(
            batch_id=None, metadata={},
            evaluations=GradientEvaluations.create(np.zeros(1), np.zeros((1, 1, 1)), np.zeros((1, 1, 1))),
            realizations=Realizations(failed_realizations=np.array([False])),
            gradients=Gradients.create(np.zeros(1), np.zeros((1, 1))))
    obj = level[0] + level[1] * float(letter[1])
    feasible = letter[2]
    ident = np.array([float(sum(ord(ch) for ch in str(letter[4])) + (100 if letter[3] == "O" else 0) + (1000 if feasible is True else (2000 if feasible else 0)))])
    functions = None if kind == "nofun" else Functions.create(np.array(obj), np.array([obj]))
    # feasible: True (no violation) | False (violation 1.0) | "slight" (a bound violation of 0.2 and a linear one of 0.4: each of
    # them - not their sum - is within the tolerance 0.5, and only within that one)
    info = ConstraintInfo(bound_lower=np.array([-0.2 if feasible == "slight" else (1.0 if feasible else -1.0)]), bound_upper=np.array([-1.0]),
                          linear_lower=np.array([-0.4]) if feasible == "slight" else None, linear_upper=np.array([-1.0]) if feasible == "slight" else None)
    return FunctionResults(
        batch_id=None, metadata={}, evaluations=FunctionEvaluations.create(ident, np.array([[obj]])),
        realizations=Realizations(failed_realizations=np.array([math.isnan(obj)])), functions=functions, constraint_info=info)


def alphabet(reduced: bool, slight: bool = False) -> list[tuple[Any, ...]]:  # noqa: FBT001, FBT002
    # (the best value of the alphabet is 0.0: a stored optimum of zero is an optimum like any other)
    objs = [("nan", float("nan")), ("0", 0.0), ("2", 2.0)] + ([] if reduced else [("2b", 2.0), ("3", 3.0)])
    levels = (True, False, "slight") if slight else (True, False)
    letters: list[tuple[Any, ...]] = [("fun", o, feas, src, tag) for tag, o in objs for feas in levels for src in ("T", "O")]
    letters += [("grad", 0.0, True, "T", "g"), ("nofun", 5.0, True, "T", "n")]
    return letters


def same_result(a: Any, b: Any) -> bool:  # noqa: ANN401
    """Identity, or equality by value (a tracker may legitimately store a copy)."""
    if a is b:
        return True
    if not (isinstance(a, FunctionResults) and isinstance(b, FunctionResults)):
        return False
    if (a.functions is None) != (b.functions is None):
        return False
    if not np.array_equal(a.evaluations.variables, b.evaluations.variables):
        return False
    if a.functions is not None and not np.array_equal(a.functions.weighted_objective, b.functions.weighted_objective, equal_nan=True):
        return False
    va = None if a.constraint_info is None else a.constraint_info.bound_violation
    vb = None if b.constraint_info is None else b.constraint_info.bound_violation
    return (va is None) == (vb is None) and (va is None or bool(np.array_equal(va, vb)))


class Reference:
    """Model of what the trackers must hold, evaluated after every event."""

    def __init__(self, tol: float | None) -> None:  # noqa: D107
        self.tol = tol
        self.candidates: list[tuple[float, Any]] = []  # (optimizer-domain objective, delivered user-domain object)
        self.last_valid: Any = None
        self.last_any: list[Any] = []

    def feasible(self, item: Any) -> bool:  # noqa: ANN401
        if self.tol is None or item.constraint_info is None:
            return True
        vio = [v for v in (item.constraint_info.bound_violation, item.constraint_info.linear_violation,
                           item.constraint_info.nonlinear_violation) if v is not None]
        return not any(np.any(v > self.tol) for v in vio)

    def deliver(self, results: Any, transformed: Any, tracked: bool) -> None:  # noqa: ANN401, FBT001
        if not tracked:
            return
        for item, titem in zip(results, transformed):
            if isinstance(titem, FunctionResults) and titem.functions is not None and self.feasible(titem):
                obj = float(titem.functions.weighted_objective)
                if not math.isnan(obj):
                    self.candidates.append((obj, item))
                    self.last_valid = item
                    self.last_any = [item]
                else:
                    self.last_any.append(item)

    def check_best(self, case: Any, held: Any, step: int) -> None:  # noqa: ANN401
        if not self.candidates:
            ok = held is None or (isinstance(held, FunctionResults) and held.functions is not None
                                  and math.isnan(float(held.functions.weighted_objective)))
            check(ok, "best-without-candidate", f"step {step}: tracker holds a result although no valid candidate was delivered", case)
            return
        best = min(o for o, _ in self.candidates)
        check(held is not None, "best-missing", f"step {step}: valid results were delivered (best objective {best}) but the tracker holds nothing", case)
        winners = [it for o, it in self.candidates if o == best]
        which = next((o for o, it in self.candidates if same_result(it, held)), None)
        check(any(same_result(held, w) for w in winners), "best-not-optimal",
              f"step {step}: tracker holds {'a result with optimizer-domain objective ' + str(which) if which is not None else 'a result that is not a valid candidate'}"
              f", the minimum over the valid delivered results is {best}", case)

    def check_last(self, case: Any, held: Any, step: int) -> None:  # noqa: ANN401
        if self.last_valid is None and not self.last_any:
            check(held is None, "last-without-candidate", f"step {step}: 'last' tracker holds a result although none is feasible", case)
            return
        check(any(same_result(held, it) for it in self.last_any) or same_result(held, self.last_valid), "last-not-latest",
              f"step {step}: 'last' tracker does not hold the most recent feasible function result", case)


def make_plan(tol: float | None) -> tuple[Plan, uuid.UUID, uuid.UUID]:
    plan = Plan(OptimizerContext(evaluator=lambda *_: None))  # type: ignore[arg-type]
    best = plan.add_handler("tracker", what="best", constraint_tolerance=tol, sources={TRACKED})
    last = plan.add_handler("tracker", what="last", constraint_tolerance=tol, sources={TRACKED})
    return plan, best, last


def emit(plan: Plan, transformed: tuple[Any, ...], tname: str, source: uuid.UUID) -> tuple[Any, Any]:
    transforms = TRANSFORMS[tname]
    data: dict[str, Any] = {}
    if transforms is not None:
        data["transformed_results"] = transformed
        data["results"] = [item.transform_from_optimizer(transforms) for item in transformed]
    else:
        data["results"] = transformed
    plan.emit_event(Event(event_type=EventType.FINISHED_EVALUATION, config=_CFG, source=source, data=data))
    return data["results"], transformed


def run_history(case: dict[str, Any], cache: dict[Any, Any] | None = None) -> dict[str, Any]:
    tol = case["tol"]
    plan, best, last = make_plan(tol)
    ref = Reference(tol)
    seen_bad = nontrivial = False
    for step, event in enumerate(case["events"], start=1):
        if event == "reset":
            plan.set(best, "results", None)
            ref.candidates.clear()
            continue
        letters = [tuple(l) for l in event["results"]]
        items = []
        level = tuple(case.get("level") or (0.0, 1.0))
        for l in letters:
            key = (*("nan" if isinstance(v, float) and math.isnan(v) else v for v in l), level)
            if cache is not None:
                if key not in cache:
                    cache[key] = make_result(l, level)
                items.append(cache[key])
            else:
                items.append(make_result(l, level))
        tracked = event["source"] == "T"
        results, transformed = emit(plan, tuple(items), case["transform"], TRACKED if tracked else OTHER)
        before = len(ref.candidates)
        ref.deliver(results, transformed, tracked)
        if len(ref.candidates) > before and seen_bad:
            nontrivial = True
        for l in letters:
            if l[0] != "fun" or (isinstance(l[1], float) and math.isnan(l[1])) or not l[2] or not tracked:
                seen_bad = True
        ref.check_best(case, plan.get(best, "results"), step)
        ref.check_last(case, plan.get(last, "results"), step)
    return {"nontrivial": nontrivial or (case["transform"] == "flip" and len(ref.candidates) > 1)}


def exhaustive_shard(item: dict[str, Any]) -> Collector:
    col = Collector(ID)
    letters = alphabet(item["reduced"])
    cache: dict[Any, Any] = {}
    states = transitions = 0
    for idx, seq in enumerate(itertools.product(letters, repeat=item["length"])):
        if idx % item["parts"] != item["part"]:
            continue
        for tname, tol in itertools.product(TRANSFORMS, TOLS):
            case = {"transform": tname, "tol": tol,
                    "events": [{"source": l[3], "results": [list(l)]} for l in seq]}
            info: dict[str, Any] = {}

            def go(case: dict[str, Any] = case, info: dict[str, Any] = info) -> None:
                info.update(run_history(case, cache))

            guard_call(col, case, go)
            states += 1
            transitions += len(seq)
            col.case((tuple(l[4] + ("f" if l[2] else "i") + l[3] for l in seq), tname, tol), nontrivial=bool(info.get("nontrivial")),
                     classes=(f"len={item['length']}", f"transform={tname}", f"tol={tol}"), sample=case)
    col.extra.update({"exhaustive": True, "states": states, "transitions": transitions, "traces_validated_against_impl": states})
    return col


# ----------------------------------------------------------------------------
def run_real(case: dict[str, Any]) -> dict[str, Any]:
    """A real optimization replayed against its own recorded event stream."""
    n = 2
    cfg: dict[str, Any] = {
        "variables": {"initial_values": case["x0"], "lower_bounds": [-2.0, -2.0], "upper_bounds": [2.0, 2.0]},
        "optimizer": {"method": case["method"], "max_functions": case["max_functions"], "options": dict(case["options"])},
        "realizations": {"weights": [1.0, 1.0], "realization_min_success": 0 if case["method"] == "differential_evolution" else 1},
        "gradient": {"number_of_perturbations": 3, "perturbation_magnitudes": 0.01},
    }
    if case["constraint"]:
        cfg["nonlinear_constraints"] = {"lower_bounds": [case["c_lb"]], "upper_bounds": [np.inf]}
    sign = -1.0 if case["maximize"] else 1.0
    a = np.array(case["slopes"], dtype=np.float64).reshape(2, 2, n)
    ev = AffineEvaluator(a[:, :1] * sign, np.full((2, 1), float(case.get("level") or 0.0)), a[:, 1:] if case["constraint"] else None,
                         np.zeros((2, 1)) if case["constraint"] else None, quad=0.5 * sign)
    if case["nan_every"]:
        ev.fail = {(k, r, -1): [("obj", 0)] for k in range(0, 400, case["nan_every"]) for r in range(2)}
    if case.get("too_few_at") is not None:  # from this evaluator call on every realization fails: the run ends with TOO_FEW_REALIZATIONS
        ev.fail = {(k, r, p): [("obj", 0)] for k in range(case["too_few_at"], 400) for r in range(2) for p in (-1, 0, 1, 2)}
    transforms = OptModelTransforms(objectives=ObjectiveScaler([-1.0], flip_weighted=True)) if case["maximize"] else None
    if case.get("vscale"):  # the optimizer works on scaled / shifted variables: what BasicOptimizer reports is in the user's domain
        scaler = VariableScaler(np.array(case["vscale"], dtype=np.float64), np.array([0.25, -0.5]))
        transforms = OptModelTransforms(variables=scaler, objectives=None if transforms is None else transforms.objectives)
    ref = Reference(case["tol"])
    delivered: list[Any] = []

    def callback(results: Any, transformed: Any) -> None:  # noqa: ANN401
        tr = transformed if transformed else results
        ref.deliver(results, tr, True)  # noqa: FBT003
        delivered.extend(results)

    opt = BasicOptimizer(cfg, ev, transforms=transforms, constraint_tolerance=case["tol"])
    opt.set_results_callback(callback, transformed=True)
    opt.run()
    ref.check_best(case, opt.results, len(delivered))
    if opt.results is not None:
        check(bool(np.array_equal(opt.variables, opt.results.evaluations.variables)), "basic-optimizer-variables",
              "BasicOptimizer.variables are not the variables of the tracked best result", case)
    nan_before = any(isinstance(d, FunctionResults) and d.functions is not None and math.isnan(float(d.functions.weighted_objective))
                     for d in delivered[:3])
    return {"nontrivial": len(ref.candidates) > 1 and (case["maximize"] or nan_before or len(ref.candidates) < sum(
        isinstance(d, FunctionResults) for d in delivered))}


def hypothesis_shard(item: dict[str, Any]) -> Collector:
    from hypothesis import strategies as st

    col = Collector(ID)
    letters = alphabet(False, slight=True)
    # infinite objective values are values (ordered like any others), not 'undefined'
    letters += [("fun", float(v), feas, src, tag) for tag, v in (("+inf", "inf"), ("-inf", "-inf")) for feas in (True, False) for src in ("T", "O")]

    @st.composite
    def cases(draw: Any) -> dict[str, Any]:  # noqa: ANN401
        if draw(st.integers(0, 5)) == 0:
            method = draw(st.sampled_from(["slsqp", "differential_evolution", "nelder-mead", "powell"]))
            return {"kind": "real", "method": method, # (also start points outside the bounds [-2, 2]: what is evaluated there violates a bound and is not a candidate)
                    # (SciPy's differential evolution itself refuses such a start)
                    "x0": [draw(st.sampled_from([0.5, -1.0, 1.5] + ([] if method == "differential_evolution" else [2.6, -2.75]))),
                           draw(st.sampled_from([0.0, 1.0] + ([] if method == "differential_evolution" else [2.25])))],
                    "max_functions": draw(st.integers(3, 12)),
                    "options": {"seed": 3, "popsize": 3, "maxiter": 3} if method == "differential_evolution" else {},
                    "constraint": draw(st.booleans()) and method not in ("nelder-mead", "powell"), "c_lb": draw(st.sampled_from([-0.5, 0.0, 0.5])),
                    "maximize": draw(st.booleans()), "slopes": [draw(st.sampled_from([-1.0, 0.5, 1.0, 2.0])) for _ in range(8)],
                    "nan_every": draw(st.sampled_from([0, 0, 2, 3])) if method == "differential_evolution" else 0,
                    "too_few_at": draw(st.integers(1, 6)) if method != "differential_evolution" and draw(st.booleans()) else None,
                    "vscale": draw(st.sampled_from([None, None, [2.0, 0.5], [10.0, 10.0]])),
                    "level": draw(st.sampled_from([0.0, 0.0, 1e6, -1e10, 1e10])),  # common offset of all objective values
                    "tol": draw(st.sampled_from([None, 1e-10, 0.5]))}
        events: list[Any] = []
        for _ in range(draw(st.integers(1, 12))):
            if draw(st.integers(0, 9)) == 0:
                events.append("reset")
                continue
            k = draw(st.sampled_from([1, 1, 2, 3]))
            events.append({"source": draw(st.sampled_from(["T", "T", "O"])),
                           "results": [list(draw(st.sampled_from(letters))) for _ in range(k)]})
        # (offset, scale) of the objective values 1, 2, 3: 1e10 + 1 and 1e10 + 2 are different numbers, and so are 1e-12 and 2e-12
        level = draw(st.sampled_from([[0.0, 1.0], [0.0, 1.0], [1e10, 1.0], [-1e10, 1.0], [0.0, 1e-12], [0.0, 1e12], [1e6, 1e-3]]))
        return {"kind": "history", "transform": draw(st.sampled_from(list(TRANSFORMS))), "tol": draw(st.sampled_from(TOLS)), "events": events,
                "level": level}

    def body(case: dict[str, Any]) -> None:
        info = run_real(case) if case["kind"] == "real" else run_history(case)
        col.case(case, nontrivial=info["nontrivial"], classes=(
            case["kind"], "objective-level=" + ("plain" if not case.get("level") or case["level"] in (0.0, [0.0, 1.0]) else "shifted-or-scaled"),
            f"transform={case.get('transform', 'flip' if case.get('maximize') else 'none')}",
            *(("method=" + case["method"], "ends-with-too-few-realizations" if case.get("too_few_at") is not None else "no-fatal-failure") if case["kind"] == "real" else ("multi-result" if any(
                e != "reset" and len(e["results"]) > 1 for e in case["events"]) else "single-result",
                "reset" if "reset" in case["events"] else "no-reset"))))

    run_hypothesis(col, cases(), body, seed=item["seed"], max_examples=item["examples"])
    return col


def shards(tier: str, seed: int) -> list[dict[str, Any]]:
    items: list[dict[str, Any]] = []
    plan = [(1, False, 1), (2, False, 1), (3, False, 12)] if tier == "quick" else \
        [(1, False, 1), (2, False, 1), (3, False, 4), (4, False, 64), (5, True, 96)]
    for length, reduced, parts in plan:
        items.extend({"kind": "exh", "length": length, "reduced": reduced, "part": i, "parts": parts} for i in range(parts))
    nshard = 4 if tier == "quick" else 16
    examples = 150 if tier == "quick" else 3000
    items.extend({"kind": "hyp", "seed": seed * 1000 + i, "examples": examples} for i in range(nshard))
    return items


def run_shard(item: dict[str, Any]) -> Collector:
    return exhaustive_shard(item) if item["kind"] == "exh" else hypothesis_shard(item)


def replay(case: dict[str, Any]) -> None:
    if case.get("kind") == "real":
        run_real(case)
    else:
        run_history(case)
