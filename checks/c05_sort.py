"""C05 - Sort filter selects exactly the configured rank window of successful members."""

from __future__ import annotations

import itertools
from fractions import Fraction
from typing import Any

import numpy as np

from harness.core import Collector, check, guard_call, run_hypothesis
from ropt.config.enopt import EnOptConfig
from ropt.ensemble_evaluator import EnsembleEvaluator
from ropt.enums import OptimizerExitCode
from ropt.evaluator import EvaluatorResult
from ropt.exceptions import ConfigError, OptimizationAborted
from ropt.plugins import PluginManager

ID = "C05"
LEVEL = "exploration"
RULE = (
    "exhaustive tier: all permutations of distinct sort values x all failure masks x all windows 0<=first<=last<n "
    "for n<=5 (quick) / n<=6 (thorough), sort-objective and sort-constraint, non-uniform configured weights; "
    "hypothesis tier: n<=12, configured weights with zeros, ties, weighted multi-objective keys, 2-3 filters "
    "mapped (with -1 entries) onto 1-3 objectives and 0-3 constraints through EnsembleEvaluator, invalid windows; the method name written plain, plug-in qualified and in other case. "
    "Oracle: tie-robust validity predicate on the selected set + exact weights. "
    "Non-trivial: >=2 successes and the window is a proper subset of the successful ranks "
    "(or, for map cases, >=2 filters mapped to different functions)."
)
ASSUMPTIONS = [
    "filter inputs satisfy the caller-guaranteed precondition: a failed realization is an all-NaN row",
    "keys closer than 1e-9 (relative to 1+max|key|) are treated as tied; either tie order is accepted",
    "rows of functions mapped to no filter are not constrained here (C01 decides them through the values)",
]

_MANAGER = PluginManager()


# ----------------------------------------------------------------------------
SPELLINGS = ("plain", "qualified", "upper", "qualified-mixed")


def spell(method: str, style: str | None) -> str:
    """The same method under the spellings a configuration may use (plug-in qualified, any case)."""
    return {"plain": method, "qualified": "default/" + method, "upper": method.upper(),
            "qualified-mixed": "Default/" + method.title()}[style or "plain"]


def make_sort_config(n: int, flavour: str, first: int, last: int, weights: list[float],  # noqa: PLR0913
                     obj_weights: list[float] | None = None, sort: list[int] | None = None, spelling: str | None = None) -> dict[str, Any]:
    config = _make_sort_config(n, flavour, first, last, weights, obj_weights, sort)
    for flt in config["realization_filters"]:
        flt["method"] = spell(flt["method"], spelling)
    return config


def _make_sort_config(n: int, flavour: str, first: int, last: int, weights: list[float],  # noqa: PLR0913
                      obj_weights: list[float] | None = None, sort: list[int] | None = None) -> dict[str, Any]:
    config: dict[str, Any] = {
        "variables": {"initial_values": [0.0]},
        "realizations": {"weights": weights, "realization_min_success": 0},
    }
    if flavour == "objective":
        ow = obj_weights or [1.0]
        config["objectives"] = {"weights": ow, "realization_filters": [0] * len(ow)}
        config["realization_filters"] = [
            {"method": "sort-objective", "options": {"sort": sort or [0], "first": first, "last": last}}
        ]
    else:
        config["nonlinear_constraints"] = {"lower_bounds": [0.0], "upper_bounds": [np.inf], "realization_filters": [0]}
        config["realization_filters"] = [
            {"method": "sort-constraint", "options": {"sort": 0, "first": first, "last": last}}
        ]
    return config


def sort_oracle(case: Any, weights: np.ndarray | None, aborted: bool, keys: np.ndarray, failed: np.ndarray,  # noqa: ANN401, FBT001, PLR0913
                configured: np.ndarray, first: int, last: int) -> None:
    """Tie-robust validity predicate. weights is None iff the call aborted."""
    n = failed.size
    succ = np.where(~failed)[0]
    m = succ.size
    lo_rank, hi_rank = first, min(last, m - 1)
    if lo_rank > hi_rank:  # window emptied by failures
        check(aborted, "no-abort-empty-window", f"window [{first},{last}] holds no successful rank (m={m}) but no abort", case)
        return
    sk = np.sort(keys[succ])
    tol = 1e-9 * (1.0 + float(np.max(np.abs(sk))))
    lo, hi = sk[lo_rank], sk[hi_rank]
    must = [i for i in succ if lo + tol < keys[i] < hi - tol]
    may = [i for i in succ if (abs(keys[i] - lo) <= tol or abs(keys[i] - hi) <= tol)]
    out = [i for i in succ if keys[i] < lo - tol or keys[i] > hi + tol]
    size = hi_rank - lo_rank + 1
    if aborted:
        check(all(configured[i] == 0.0 for i in must), "abort-with-positive-weight",
              "aborted although the window contains a realization with positive weight", case)
        slots = size - len(must)
        zero_may = sum(1 for i in may if configured[i] == 0.0)
        check(zero_may >= slots or len(may) > slots, "abort-with-positive-weight",
              "aborted although every valid window selection has positive weight", case)
        if len(may) == slots:
            check(all(configured[i] == 0.0 for i in may), "abort-with-positive-weight",
                  "aborted although the window contains a realization with positive weight", case)
        return
    assert weights is not None
    check(weights.shape == (n,), "shape", f"weights shape {weights.shape}", case)
    check(bool(np.all(weights[failed] == 0.0)), "failed-selected", f"failed realization has weight: {weights.tolist()}", case)
    for i in must:
        check(weights[i] == configured[i], "window-member-weight",
              f"realization {i} inside the window has weight {weights[i]!r}, configured {configured[i]!r}", case)
    for i in out:
        check(weights[i] == 0.0, "outside-window-selected",
              f"realization {i} outside the window has weight {weights[i]!r}: keys={keys.tolist()} w={weights.tolist()}", case)
    for i in may:
        check(weights[i] in (0.0, configured[i]), "window-member-weight",
              f"realization {i} has weight {weights[i]!r}, neither 0 nor configured {configured[i]!r}", case)
    if len(may) == size - len(must):  # no ambiguity: all boundary members are selected
        for i in may:
            check(weights[i] == configured[i], "window-member-weight",
                  f"realization {i} inside the window has weight {weights[i]!r}, configured {configured[i]!r}", case)
    if bool(np.all(configured > 0)):
        check(int(np.count_nonzero(weights)) == size, "window-size",
              f"{int(np.count_nonzero(weights))} realizations selected, window holds {size}", case)
    check(bool(np.any(weights > 0)), "no-abort-empty-window", "no positive weight selected but no abort", case)


def call_filter(flt: Any, objectives: np.ndarray, constraints: np.ndarray | None, case: Any) -> tuple[np.ndarray | None, bool]:  # noqa: ANN401
    try:
        return np.asarray(flt.get_realization_weights(objectives, constraints), dtype=np.float64), False
    except OptimizationAborted as exc:
        check(exc.exit_code == OptimizerExitCode.TOO_FEW_REALIZATIONS, "abort-code", f"exit code {exc.exit_code}", case)
        return None, True


def exact_key(values: np.ndarray, sort: list[int], w: np.ndarray) -> np.ndarray:
    if w.size > 1:  # (an objective with weight zero has no say in the ranking, whatever its values - also infinite ones)
        return np.array([float(sum(Fraction(float(values[i, s])) * Fraction(float(w[s])) for s in sort if w[s] != 0))
                         for i in range(values.shape[0])])
    return values[:, sort[0]].astype(np.float64)


def run_direct(case: dict[str, Any], flt: Any = None, cfg: EnOptConfig | None = None) -> None:  # noqa: ANN401
    n, flavour = case["n"], case["flavour"]
    failed = np.array(case["failed"], dtype=bool)
    values = np.array(case["values"], dtype=np.float64).reshape(n, -1)
    if flt is None or cfg is None:
        cfg = EnOptConfig.model_validate(
            make_sort_config(n, flavour, case["first"], case["last"], case["weights"], case.get("obj_weights"), case.get("sort"), case.get("spelling"))
        )
        flt = _MANAGER.get_plugin("realization_filter", cfg.realization_filters[0].method).create(cfg, 0)
    configured = np.asarray(cfg.realizations.weights)
    if flavour == "objective":
        objectives = np.where(failed[:, None], np.nan, values)
        constraints = None
        keys = exact_key(values, case.get("sort") or [0], np.asarray(cfg.objectives.weights))
    else:
        objectives = np.where(failed[:, None], np.nan, np.zeros((n, 1)))
        constraints = np.where(failed[:, None], np.nan, values[:, :1])
        keys = values[:, 0]
    weights, aborted = call_filter(flt, objectives, constraints, case)
    sort_oracle(case, weights, aborted, keys, failed, configured, case["first"], case["last"])


# ----------------------------------------------------------------------------
def exhaustive_shard(item: dict[str, Any]) -> Collector:
    col = Collector(ID)
    n, flavour = item["n"], item["flavour"]
    cfg_w = [float(i + 1) for i in range(n)]
    windows = [(f, l) for f in range(n) for l in range(f, n)]
    masks = list(itertools.product([False, True], repeat=n))
    if item["part"] == 0:  # windows outside the ensemble, under every spelling of the method name
        for first, last, spelling in itertools.product(range(n + 2), range(n + 2), SPELLINGS):
            if 0 <= first <= last < n:
                continue
            case = {"kind": "invalid", "n": n, "flavour": flavour, "first": first, "last": last, "spelling": spelling}
            guard_call(col, case, lambda: run_invalid_window(case))  # noqa: B023
            col.case((n, flavour, first, last, spelling, "invalid"), nontrivial=False, classes=(flavour, "invalid-window", f"spelling={spelling}"), sample=case)
    for w_i, (first, last) in enumerate(windows[item["part"]:: item["parts"]]):
        spelling = SPELLINGS[w_i % len(SPELLINGS)]
        cfg = EnOptConfig.model_validate(make_sort_config(n, flavour, first, last, cfg_w, spelling=spelling))
        flt = _MANAGER.get_plugin("realization_filter", cfg.realization_filters[0].method).create(cfg, 0)
        # (objective flavour, n <= 4) the same orderings once more next to a monitored objective - weight zero, but named in the sort
        # list - that is infinite for every other realization
        cfg_inf = flt_inf = None
        if flavour == "objective" and n <= 4:  # noqa: PLR2004
            cfg_inf = EnOptConfig.model_validate(make_sort_config(n, flavour, first, last, cfg_w, [1.0, 0.0], [0, 1], spelling=spelling))
            flt_inf = _MANAGER.get_plugin("realization_filter", cfg_inf.realization_filters[0].method).create(cfg_inf, 0)
        for mask in masks:
            failed = np.array(mask, dtype=bool)
            m = int(np.count_nonzero(~failed))
            base = np.arange(m, dtype=np.float64) * 0.5 - 1.0
            for perm in (itertools.permutations(range(m)) if m else [()]):
                values = np.full(n, -9.0)  # failed rows would sort first if they were ranked
                if m:
                    values[~failed] = base[list(perm)]
                case = {"kind": "direct", "n": n, "flavour": flavour, "failed": list(mask), "values": values.tolist(),
                        "first": first, "last": last, "weights": cfg_w, "spelling": spelling}
                guard_call(col, case, lambda: run_direct(case, flt, cfg))  # noqa: B023
                proper = m >= 2 and not (first == 0 and last >= m - 1)  # noqa: PLR2004
                col.case((n, flavour, first, last, mask, perm), nontrivial=proper,
                         classes=(flavour, f"m={m}", "emptied" if first >= m else "nonempty"), sample=case)
                if flt_inf is not None:
                    second = [float("inf") if i % 2 == 0 else (float("-inf") if i % 3 == 0 else 0.5) for i in range(n)]
                    case2 = {"kind": "direct", "n": n, "flavour": flavour, "failed": list(mask), "values": [[v, s_] for v, s_ in zip(values.tolist(), second)],
                             "first": first, "last": last, "weights": cfg_w, "spelling": spelling, "obj_weights": [1.0, 0.0], "sort": [0, 1]}
                    guard_call(col, case2, lambda: run_direct(case2, flt_inf, cfg_inf))  # noqa: B023
                    col.case((n, "objective+monitored-infinite", first, last, mask, perm), nontrivial=proper,
                             classes=("objective+monitored-infinite", f"m={m}"), sample=case2)
    col.extra["exhaustive"] = True
    return col


# ----------------------------------------------------------------------------
def run_invalid_window(case: dict[str, Any]) -> None:
    calls = []

    def evaluator(variables: np.ndarray, context: Any) -> EvaluatorResult:  # noqa: ANN401, ARG001
        calls.append(1)
        return EvaluatorResult(objectives=np.zeros((variables.shape[0], 1)),
                               constraints=np.zeros((variables.shape[0], 1)) if case["flavour"] != "objective" else None)

    n = case["n"]
    try:
        cfg = EnOptConfig.model_validate(make_sort_config(n, case["flavour"], case["first"], case["last"], [1.0] * n, spelling=case.get("spelling")))
        EnsembleEvaluator(cfg, None, evaluator, _MANAGER)
    except ConfigError:
        check(not calls, "invalid-window-evaluated", "evaluator was called before the window was rejected", case)
        return
    except Exception as exc:  # noqa: BLE001
        if type(exc).__name__ == "ValidationError":
            return
        raise
    check(False, "invalid-window-accepted", f"window [{case['first']},{case['last']}] accepted for n={n}", case)  # noqa: FBT003


def ref_filter_weights(spec: dict[str, Any], objectives: np.ndarray, constraints: np.ndarray | None,
                       failed: np.ndarray, configured: np.ndarray, obj_w: np.ndarray) -> np.ndarray | None:
    """Reference weights for a sort filter when its keys are distinct; None when tied or aborting."""
    if spec["method"].lower().endswith("sort-objective"):
        keys = exact_key(objectives, spec["options"]["sort"], obj_w)
    else:
        assert constraints is not None
        keys = constraints[:, spec["options"]["sort"]]
    succ = np.where(~failed)[0]
    k = keys[succ]
    if len({round(float(v), 9) for v in k}) != k.size:
        return None
    order = succ[np.argsort(k, kind="stable")]
    sel = order[spec["options"]["first"]: spec["options"]["last"] + 1]
    weights = np.zeros(failed.size)
    weights[sel] = configured[sel]
    return weights


def run_map(case: dict[str, Any]) -> None:
    """Several filters mapped onto several functions through EnsembleEvaluator."""
    n, k_n, c_n = case["n"], case["k"], case["c"]
    failed = np.array(case["failed"], dtype=bool)
    obj = np.array(case["objectives"], dtype=np.float64).reshape(n, k_n)
    con = np.array(case["constraints"], dtype=np.float64).reshape(n, c_n) if c_n else None
    config: dict[str, Any] = {
        "variables": {"initial_values": [0.0]},
        "realizations": {"weights": case["weights"], "realization_min_success": 0},
        "objectives": {"weights": case["obj_weights"], "realization_filters": case["obj_map"]},
        "realization_filters": case["filters"],
    }
    if c_n:
        config["nonlinear_constraints"] = {"lower_bounds": [0.0] * c_n, "upper_bounds": [np.inf] * c_n,
                                           "realization_filters": case["con_map"]}
    cfg = EnOptConfig.model_validate(config)
    configured = np.asarray(cfg.realizations.weights)

    def evaluator(variables: np.ndarray, context: Any) -> EvaluatorResult:  # noqa: ANN401, ARG001
        o = obj[context.realizations].copy()
        o[failed[context.realizations], case["nan_col"] % k_n] = np.nan
        return EvaluatorResult(objectives=o, constraints=None if con is None else con[context.realizations].copy())

    ens = EnsembleEvaluator(cfg, None, evaluator, _MANAGER)
    used = {j for j in case["obj_map"] + (case["con_map"] if c_n else []) if j >= 0}
    refs: dict[int, np.ndarray | None] = {}
    must_abort = False
    for j in used:
        refs[j] = ref_filter_weights(case["filters"][j], obj, con, failed, configured, np.asarray(cfg.objectives.weights))
        if refs[j] is not None and not np.any(refs[j] > 0):
            must_abort = True
    ambiguous = any(refs[j] is None for j in used)
    try:
        (res,) = ens.calculate(np.zeros(1), compute_functions=True, compute_gradients=False)
    except OptimizationAborted as exc:
        check(exc.exit_code == OptimizerExitCode.TOO_FEW_REALIZATIONS, "abort-code", f"{exc.exit_code}", case)
        check(must_abort or ambiguous or
              (bool(np.count_nonzero(~failed) < 2)),  # noqa: PLR2004
              "abort-with-positive-weight", "aborted although every mapped filter selects a positive weight", case)
        return
    check(not must_abort, "no-abort-empty-window", "a mapped filter selects no positive weight but a value was produced", case)
    ow, cw = res.realizations.objective_weights, res.realizations.constraint_weights
    for kind, fmap, rows in (("objective", case["obj_map"], ow), ("constraint", case["con_map"] if c_n else [], cw)):
        for idx, j in enumerate(fmap):
            if j < 0:
                continue
            check(rows is not None, "map-weights-missing", f"{kind} {idx} is mapped to filter {j} but no weights are reported", case)
            ref = refs[j]
            if ref is None:
                continue
            check(bool(np.array_equal(np.asarray(rows[idx]), ref)), "map-row",
                  f"{kind} {idx} mapped to filter {j}: reported {np.asarray(rows[idx]).tolist()} != filter weights {ref.tolist()}", case)


def hypothesis_shard(item: dict[str, Any]) -> Collector:
    from hypothesis import strategies as st

    col = Collector(ID)
    value = st.one_of(st.integers(-3, 3).map(float), st.floats(-50, 50, allow_nan=False, width=32).map(float))

    @st.composite
    def cases(draw: Any) -> dict[str, Any]:  # noqa: ANN401
        kind = draw(st.sampled_from(["direct", "direct", "map", "map", "invalid"]))
        n = draw(st.integers(1, 12 if kind == "direct" else 6))
        if kind == "invalid":
            flavour = draw(st.sampled_from(["objective", "constraint"]))
            choice = draw(st.integers(0, 2))
            if choice == 0:
                last = draw(st.integers(0, n)); first = last + draw(st.integers(1, 3))  # noqa: E702
            elif choice == 1:
                first = draw(st.integers(0, n - 1)); last = n + draw(st.integers(0, 3))  # noqa: E702
            else:
                first = n + draw(st.integers(0, 2)); last = first + draw(st.integers(0, 2))  # noqa: E702
            return {"kind": kind, "n": n, "flavour": flavour, "first": first, "last": last, "spelling": draw(st.sampled_from(SPELLINGS))}
        failed = draw(st.lists(st.booleans(), min_size=n, max_size=n))
        weights = [draw(st.sampled_from([0.0, 1.0, 1.0, 2.0, 0.5])) for _ in range(n)]
        if sum(weights) == 0:
            weights[draw(st.integers(0, n - 1))] = 1.0
        if kind == "direct":
            flavour = draw(st.sampled_from(["objective", "constraint"]))
            first = draw(st.integers(0, n - 1)); last = draw(st.integers(first, n - 1))  # noqa: E702
            case: dict[str, Any] = {"kind": kind, "n": n, "flavour": flavour, "failed": failed, "first": first,
                                    "last": last, "weights": weights, "spelling": draw(st.sampled_from(SPELLINGS))}
            if flavour == "objective" and draw(st.booleans()):
                k_n = draw(st.integers(2, 3))
                case["obj_weights"] = [draw(st.sampled_from([0.5, 1.0, 2.0])) for _ in range(k_n)]
                if draw(st.booleans()):  # a negative weight with a positive total
                    neg = draw(st.integers(0, k_n - 1))
                    case["obj_weights"][neg] = -0.5
                    if sum(case["obj_weights"]) <= 0:
                        case["obj_weights"][(neg + 1) % k_n] = 3.0
                case["sort"] = draw(st.permutations(sorted(draw(st.sets(st.integers(0, k_n - 1), min_size=1)))))
                case["values"] = [[draw(value) for _ in range(k_n)] for _ in range(n)]
                if draw(st.integers(0, 3)) == 0:
                    # a monitored objective (weight zero) among the ranked ones, with infinite values for some realizations
                    zero = draw(st.integers(0, k_n - 1))
                    case["obj_weights"][zero] = 0.0
                    if sum(case["obj_weights"]) <= 0:
                        case["obj_weights"][(zero + 1) % k_n] = 3.0
                    case["sort"] = sorted({*case["sort"], zero, (zero + 1) % k_n})
                    for row in case["values"]:
                        if draw(st.booleans()):
                            row[zero] = draw(st.sampled_from([float("inf"), float("-inf")]))
                    case["infinite"] = True
            else:
                case["values"] = draw(st.lists(value, min_size=n, max_size=n))
            return case
        k_n = draw(st.integers(1, 3)); c_n = draw(st.integers(0, 3))  # noqa: E702
        f_n = draw(st.integers(2, 3))
        filters = []
        for _ in range(f_n):
            first = draw(st.integers(0, n - 1)); last = draw(st.integers(first, n - 1))  # noqa: E702
            if c_n and draw(st.booleans()):
                filters.append({"method": spell("sort-constraint", draw(st.sampled_from(SPELLINGS))),
                                "options": {"sort": draw(st.integers(0, c_n - 1)), "first": first, "last": last}})
            else:
                srt = sorted(draw(st.sets(st.integers(0, k_n - 1), min_size=1)))
                filters.append({"method": spell("sort-objective", draw(st.sampled_from(SPELLINGS))), "options": {"sort": srt, "first": first, "last": last}})
        return {"kind": kind, "n": n, "k": k_n, "c": c_n, "failed": failed, "weights": weights,
                "obj_weights": [draw(st.sampled_from([0.5, 1.0, 2.0])) for _ in range(k_n)],
                "objectives": [[draw(value) for _ in range(k_n)] for _ in range(n)],
                "constraints": [[draw(value) for _ in range(c_n)] for _ in range(n)],
                "filters": filters, "nan_col": draw(st.integers(0, 2)),
                "obj_map": [draw(st.integers(-1, f_n - 1)) for _ in range(k_n)],
                "con_map": [draw(st.integers(-1, f_n - 1)) for _ in range(c_n)]}

    def body(case: dict[str, Any]) -> None:
        replay(case)
        kind = case["kind"]
        if kind == "invalid":
            col.case(case, nontrivial=False, classes=("invalid-window",))
            return
        failed = np.array(case["failed"], dtype=bool)
        m = int(np.count_nonzero(~failed))
        if kind == "direct":
            proper = m >= 2 and not (case["first"] == 0 and case["last"] >= m - 1)  # noqa: PLR2004
            col.case(case, nontrivial=proper, classes=("direct", case["flavour"], "multi-key" if "sort" in case else "single-key",
                                                        "zero-weights" if 0.0 in case["weights"] else "positive-weights"))
        else:
            used = {j for j in case["obj_map"] + case["con_map"] if j >= 0}
            mixed = -1 in case["obj_map"] + case["con_map"] and bool(used)
            col.case(case, nontrivial=len(used) >= 2 and m >= 2,  # noqa: PLR2004
                     classes=("map", f"filters-used={len(used)}", "mixed-unfiltered" if mixed else "all-or-none"))

    run_hypothesis(col, cases(), body, seed=item["seed"], max_examples=item["examples"])
    return col


# ----------------------------------------------------------------------------
def shards(tier: str, seed: int) -> list[dict[str, Any]]:
    items: list[dict[str, Any]] = []
    nmax = 5 if tier == "quick" else 6
    for n in range(1, nmax + 1):
        for flavour in ("objective", "constraint"):
            parts = 1 if n < 5 else (5 if n == 5 else 16)  # noqa: PLR2004
            items.extend({"kind": "exh", "n": n, "flavour": flavour, "part": p, "parts": parts} for p in range(parts))
    nshard = 8 if tier == "quick" else 16
    examples = 300 if tier == "quick" else 4000
    items.extend({"kind": "hyp", "seed": seed * 1000 + i, "examples": examples} for i in range(nshard))
    items.sort(key=lambda it: -(it.get("n", 5)))
    return items


def run_shard(item: dict[str, Any]) -> Collector:
    return exhaustive_shard(item) if item["kind"] == "exh" else hypothesis_shard(item)


def replay(case: dict[str, Any]) -> None:
    kind = case.get("kind", "direct")
    if kind == "invalid":
        run_invalid_window(case)
    elif kind == "map":
        run_map(case)
    else:
        run_direct(case)
