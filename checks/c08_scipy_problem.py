"""C08 - The problem handed to SciPy is equivalent to the configured problem."""

from __future__ import annotations

import itertools
from typing import Any

import numpy as np
from scipy.optimize import Bounds, LinearConstraint, NonlinearConstraint

from harness.core import Collector, Violation, check, guard_call, run_hypothesis
from harness.scipy_capture import capture
from ropt.config.enopt import EnOptConfig
from ropt.plugins.optimizer.scipy import SciPyOptimizer

ID = "C08"
LEVEL = "exploration"
RULE = (
    "configurations = constraint kind per constraint (equality, lower-only, upper-only, two-sided, unbounded) for C "
    "non-linear + L linear constraints x method (all 10 SciPy methods, written plain / 'scipy/<method>' / in upper case) x options in {None, {}, {'ftol':..}, list} x "
    "max_iterations in {None, 7}; exhaustive over kinds for C,L<=2 (quick) / C,L<=3 (thorough, large combinations only for "
    "the constraint-capable methods); Hypothesis adds random coefficients, bounds with any finite/infinite mix, variable "
    "masks and fixed values. The arguments received by scipy.optimize.minimize / differential_evolution are captured and "
    "evaluated at 12 test points per case (random, projected onto the equality manifold, and moved off it). Oracle: "
    "point feasible for the configured problem <=> feasible for the handed Bounds / constraint dicts (ineq: fun>=0, eq: "
    "fun=0) / constraint objects; jac == derivative of fun; masked problems expose free variables only; max_iterations "
    "reaches maxiter/maxfun; kinds the back-end cannot handle are rejected. "
    "Non-trivial: a two-sided or mixed constraint set, or a mask, or max_iterations with options not a dict."
)
ASSUMPTIONS = [
    "non-linear constraint functions are affine in the check so that exact feasibility and derivatives are known",
    "linear rows with a non-zero coefficient on a fixed variable are not retained by the plug-in (by design, see the anchor); "
    "equivalence is required for the retained rows",
    "feasibility margin 1e-9; points with a margin between 1e-12 and 1e-6 of a boundary are skipped and counted",
    "back-end capability table (SciPy): bounds - Nelder-Mead, Powell, L-BFGS-B, TNC, SLSQP, COBYLA, differential_evolution; "
    "general constraints - COBYLA, SLSQP, differential_evolution; other combinations must be rejected by the plug-in",
]

METHODS = ["nelder-mead", "powell", "cg", "bfgs", "newton-cg", "l-bfgs-b", "tnc", "cobyla", "slsqp", "differential_evolution"]
BACKEND_BOUNDS = {"nelder-mead", "powell", "l-bfgs-b", "tnc", "slsqp", "cobyla", "differential_evolution"}
BACKEND_CONSTRAINTS = {"cobyla", "slsqp", "differential_evolution"}
NO_GRADIENT = {"nelder-mead", "powell", "cobyla", "differential_evolution"}
KINDS = ["eq", "lower", "upper", "two", "free"]
HYP_KINDS = [*KINDS, "narrow"]
OPTIONS = {"none": None, "empty": {}, "dict": {"ftol": 1e-3}, "list": ["some option"],
           "own-limit": {"maxiter": 250, "maxfun": 250, "ftol": 1e-3}}
TOL = 1e-9


def kind_bounds(kind: str, base: float, width: float) -> tuple[float, float]:
    if kind == "narrow":  # a two-sided band that is narrow relative to its magnitude, not an equality
        return (100.0 + base, 100.0 + base + 5e-4)
    return {"eq": (base, base), "lower": (base, np.inf), "upper": (-np.inf, base + width), "two": (base, base + width),
            "free": (-np.inf, np.inf)}[kind]


def build_config(case: dict[str, Any]) -> EnOptConfig:
    n = case["n"]
    if case["method"] == "differential_evolution" and case["options"] in ("dict", "own-limit"):
        case = {**case, "options": "empty"}  # SciPy options of minimize() are not arguments of differential_evolution
    cfg: dict[str, Any] = {
        "variables": {"initial_values": case["x0"], "lower_bounds": case["lb"], "upper_bounds": case["ub"]},
        "optimizer": {"method": spell(case["method"], case.get("spelling")), "options": OPTIONS[case["options"]]},
    }
    if case.get("output_dir"):  # (a place where the back-end may write: it switches on the back-end's own reporting, nothing else)
        cfg["optimizer"]["output_dir"] = "c08-output-not-created"
    if case.get("parallel") and case["method"] == "differential_evolution":
        cfg["optimizer"]["parallel"] = True  # (the population is evaluated as one batch)
    if case["max_iterations"] is not None:
        cfg["optimizer"]["max_iterations"] = case["max_iterations"]
    if case.get("max_functions") is not None:  # the evaluation budget is ropt's own business, it does not change the iteration limit
        cfg["optimizer"]["max_functions"] = case["max_functions"]
    if case["mask"] is not None:
        cfg["variables"]["mask"] = case["mask"]
    if case.get("types") is not None:
        cfg["variables"]["types"] = case["types"]
    if case["nl"]:
        cfg["nonlinear_constraints"] = {"lower_bounds": [b[0] for b in case["nl"]], "upper_bounds": [b[1] for b in case["nl"]]}
    if case["lin"]:
        cfg["linear_constraints"] = {"coefficients": case["A"], "lower_bounds": [b[0] for b in case["lin"]],
                                     "upper_bounds": [b[1] for b in case["lin"]]}
    del n
    return EnOptConfig.model_validate(cfg)


def margins_configured(case: dict[str, Any], xf: np.ndarray, free: np.ndarray) -> tuple[list[float], list[float]]:
    """(inequality margins >= 0 when satisfied, equality residuals) of the configured problem at free-variable point xf."""
    x = np.array(case["x0"], dtype=np.float64)
    x[free] = xf
    ineq: list[float] = []
    eq: list[float] = []
    lb, ub = np.array(case["lb"], dtype=np.float64), np.array(case["ub"], dtype=np.float64)
    for i in np.where(free)[0]:
        if np.isfinite(lb[i]):
            ineq.append(x[i] - lb[i])
        if np.isfinite(ub[i]):
            ineq.append(ub[i] - x[i])
    a_nl = np.array(case["a_nl"], dtype=np.float64).reshape(len(case["nl"]), -1) if case["nl"] else np.zeros((0, int(free.sum())))
    vals = list(a_nl @ xf + np.array(case["b_nl"], dtype=np.float64)) if case["nl"] else []
    bnds = list(case["nl"])
    if case["lin"]:
        a = np.array(case["A"], dtype=np.float64)
        for row, b in zip(a, case["lin"]):
            if np.any(row[~free] != 0):
                continue  # not retained: touches a fixed variable
            vals.append(float(row @ x))
            bnds.append(b)
    for v, (lo, hi) in zip(vals, bnds):
        if lo == hi:
            eq.append(v - lo)
            continue
        if np.isfinite(lo):
            ineq.append(v - lo)
        if np.isfinite(hi):
            ineq.append(hi - v)
    return ineq, eq


def margins_handed(kwargs: dict[str, Any], kind: str, xf: np.ndarray, case: Any) -> tuple[list[float], list[float]]:  # noqa: ANN401
    ineq: list[float] = []
    eq: list[float] = []
    bounds = kwargs.get("bounds")
    if bounds is not None:
        check(isinstance(bounds, Bounds), "handed-bounds-type", f"bounds is {type(bounds).__name__}", case)
        lo, hi = np.broadcast_to(bounds.lb, xf.shape), np.broadcast_to(bounds.ub, xf.shape)
        for i in range(xf.size):
            if np.isfinite(lo[i]):
                ineq.append(xf[i] - lo[i])
            if np.isfinite(hi[i]):
                ineq.append(hi[i] - xf[i])
    for con in kwargs.get("constraints") or []:
        if isinstance(con, dict):
            val = float(np.asarray(con["fun"](xf.copy())).reshape(-1)[0])
            (eq if con["type"] == "eq" else ineq).append(val)
        elif isinstance(con, LinearConstraint):
            v = np.atleast_1d(np.asarray(con.A) @ xf)
            for vi, lo, hi in zip(v, np.broadcast_to(con.lb, v.shape), np.broadcast_to(con.ub, v.shape)):
                _append(ineq, eq, float(vi), float(lo), float(hi))
        elif isinstance(con, NonlinearConstraint):
            v = np.atleast_1d(np.asarray(con.fun(xf.copy()), dtype=np.float64))
            for vi, lo, hi in zip(v, np.broadcast_to(con.lb, v.shape), np.broadcast_to(con.ub, v.shape)):
                _append(ineq, eq, float(vi), float(lo), float(hi))
        else:
            check(False, "handed-constraint-type", f"unknown constraint object {type(con).__name__}", case)  # noqa: FBT003
    del kind
    return ineq, eq


def _append(ineq: list[float], eq: list[float], v: float, lo: float, hi: float) -> None:
    if lo == hi:
        eq.append(v - lo)
        return
    if np.isfinite(lo):
        ineq.append(v - lo)
    if np.isfinite(hi):
        ineq.append(hi - v)


def feasible(ineq: list[float], eq: list[float]) -> bool | None:
    """None = too close to a boundary to call."""
    allm = list(ineq) + [-abs(e) for e in eq]
    for m in ineq:
        if 1e-12 < abs(m) < 1e-6:  # noqa: PLR2004
            return None
    for e in eq:
        if 1e-12 < abs(e) < 1e-6:  # noqa: PLR2004
            return None
    return all(m >= -TOL for m in allm)


def test_points(case: dict[str, Any], free: np.ndarray) -> list[np.ndarray]:
    nf = int(free.sum())
    base = np.array(case["points"], dtype=np.float64).reshape(-1, case["n"])[:, free]
    pts = [p.copy() for p in base[:4]]
    # equality manifold of the (affine) configured problem in the free variables
    rows, rhs = [], []
    x0 = np.array(case["x0"], dtype=np.float64)
    def target(lo: float, hi: float) -> float | None:
        if lo == hi:
            return lo
        if np.isfinite(lo) and np.isfinite(hi) and hi - lo < 1e-2:  # noqa: PLR2004
            return 0.5 * (lo + hi)  # interior of a narrow band
        return None

    if case["nl"]:
        a_nl = np.array(case["a_nl"], dtype=np.float64).reshape(len(case["nl"]), -1)
        for r, b, (lo, hi) in zip(a_nl, case["b_nl"], case["nl"]):
            if target(lo, hi) is not None and np.any(r != 0):
                rows.append(r); rhs.append(target(lo, hi) - b)  # noqa: E702
    if case["lin"]:
        a = np.array(case["A"], dtype=np.float64)
        for r, (lo, hi) in zip(a, case["lin"]):
            if target(lo, hi) is not None and not np.any(r[~free] != 0):
                rows.append(r[free]); rhs.append(target(lo, hi) - float(r[~free] @ x0[~free]))  # noqa: E702
    if rows:
        m, b = np.array(rows), np.array(rhs)
        pinv = np.linalg.pinv(m)
        for p in base[4:8]:
            q = p - pinv @ (m @ p - b)
            pts.append(q)
            # (the plug-in treats points closer than ~1e-5 relative as the same point, so test points are kept well apart)
            pts.append(q + 4e-3 * (1.0 + np.abs(q)))
    else:
        pts.extend(p.copy() for p in base[4:12])
    return pts[:16]


def run_case(case: dict[str, Any]) -> dict[str, Any]:  # noqa: C901, PLR0912, PLR0915
    info = {"rejected": False, "skipped": 0, "compared": 0}
    cfg = build_config(case)
    method = case["method"]
    n = case["n"]
    free = np.ones(n, dtype=bool) if case["mask"] is None else np.array(case["mask"], dtype=bool)
    nf = int(free.sum())
    n_nl = len(case["nl"])
    a_nl = np.array(case["a_nl"], dtype=np.float64).reshape(n_nl, nf) if n_nl else np.zeros((0, nf))
    b_nl = np.array(case["b_nl"], dtype=np.float64) if n_nl else np.zeros(0)
    seen_shapes: list[tuple[int, ...]] = []

    def callback(variables: np.ndarray, *, return_functions: bool, return_gradients: bool) -> tuple[np.ndarray, np.ndarray]:
        seen_shapes.append(variables.shape)
        v2 = np.atleast_2d(variables)
        f = np.hstack([np.sum(v2**2, axis=1, keepdims=True), v2 @ a_nl.T + b_nl]) if return_functions else np.array([])
        if return_functions and variables.ndim == 1:
            f = f[0]
        g = np.vstack([2 * v2[0][None, :], a_nl]) if return_gradients else np.array([])
        return f, g

    has_bounds = bool(np.isfinite(cfg.variables.lower_bounds).any() or np.isfinite(cfg.variables.upper_bounds).any())
    has_constraints = bool(n_nl or case["lin"])
    must_reject = (has_bounds and method not in BACKEND_BOUNDS) or (has_constraints and method not in BACKEND_CONSTRAINTS)
    try:
        with capture() as cap:
            opt = SciPyOptimizer(cfg, callback)
            opt.start(np.asarray(cfg.variables.initial_values, dtype=np.float64))
    except NotImplementedError:
        info["rejected"] = True
        return info
    check(not must_reject, "unsupported-accepted",
          f"method {method} cannot handle {'bounds' if has_bounds and method not in BACKEND_BOUNDS else 'constraints'} in SciPy, "
          "but the configuration was accepted", case)
    kw = cap.kwargs
    check(cap.kind == ("differential_evolution" if method == "differential_evolution" else "minimize"), "backend", f"{cap.kind}", case)
    # ---- exposed variables
    x0 = np.asarray(kw["x0"])
    check(x0.shape == (nf,), "free-length", f"x0 has shape {x0.shape}, {nf} free variables", case)
    check(bool(np.array_equal(x0, np.asarray(cfg.variables.initial_values)[free])), "free-length", "x0 are not the free initial values", case)
    if kw.get("bounds") is not None:
        check(np.shape(kw["bounds"].lb) == (nf,) and np.shape(kw["bounds"].ub) == (nf,), "free-length", "bounds do not have the free length", case)
    # ---- iteration limit
    if method != "differential_evolution":
        check(kw.get("method") == method, "backend", f"method {kw.get('method')!r} handed instead of {method!r}", case)
    if case["max_iterations"] is not None:
        if method == "differential_evolution":
            got = kw.get("maxiter")
        else:
            got = (kw.get("options") or {}).get("maxfun" if method == "tnc" else "maxiter")
        if got != case["max_iterations"]:
            sig = "max-iterations-dropped-without-options-dict" if (got is None and not isinstance(OPTIONS[case["options"]], dict)) \
                else "max-iterations-wrong"
            raise Violation(sig, f"max_iterations={case['max_iterations']} but the back-end receives {got!r} "
                            f"(options given as {OPTIONS[case['options']]!r})", case)
    if case.get("types") is not None and method == "differential_evolution":
        # integer variables: the flags handed to SciPy describe the free variables, one flag each
        exp_int = (np.array(case["types"]) == 2)[free]  # noqa: PLR2004
        got_int = kw.get("integrality")
        # (flags that are not handed at all - options given as None or a list - are outside the statement: it speaks about what is exposed)
        check(got_int is None or (np.shape(got_int) == exp_int.shape and bool(np.array_equal(np.asarray(got_int, dtype=bool), exp_int))),
              "integrality", f"integrality flags {None if got_int is None else np.asarray(got_int).tolist()} handed to SciPy, the free variables "
              f"have {exp_int.tolist()}", case)
    if isinstance(OPTIONS[case["options"]], dict) and method != "differential_evolution":
        limit_key = "maxfun" if method == "tnc" else "maxiter"
        for key, val in OPTIONS[case["options"]].items():
            if key == limit_key and case["max_iterations"] is not None:
                continue  # max_iterations takes precedence (checked above)
            check((kw.get("options") or {}).get(key) == val, "options-dropped", f"option {key} not forwarded", case)
    # ---- feasibility equivalence and Jacobians
    for xf in test_points(case, free):
        conf = feasible(*margins_configured(case, xf, free))
        hand = feasible(*margins_handed(kw, cap.kind or "", xf, case))
        if conf is None or hand is None:
            info["skipped"] += 1
            continue
        info["compared"] += 1
        check(conf == hand, "feasibility",
              f"free point {xf.tolist()}: configured problem {'feasible' if conf else 'infeasible'}, handed problem "
              f"{'feasible' if hand else 'infeasible'} (configured margins {margins_configured(case, xf, free)}, "
              f"handed {margins_handed(kw, cap.kind or '', xf, case)})", case)
    if method == "differential_evolution" and case.get("parallel"):
        # a population handed over as one matrix (one column per member): column s of the answer belongs to member s
        members = test_points(case, free)[:5]
        population = np.array(members, dtype=np.float64).T
        for c_i, con in enumerate(kw.get("constraints") or []):
            if isinstance(con, NonlinearConstraint) and len(members) > 1:
                got = np.asarray(con.fun(population.copy()), dtype=np.float64)
                exp = np.column_stack([np.atleast_1d(np.asarray(con.fun(np.array(m, dtype=np.float64)), dtype=np.float64)) for m in members])
                check(got.shape == exp.shape and bool(np.allclose(got, exp, rtol=1e-12, atol=1e-12)), "population-values",
                      f"constraint object {c_i} evaluated for a population of {len(members)}: {got.tolist()}, member by member: {exp.tolist()}", case)
    x_a = np.array(case["points"], dtype=np.float64).reshape(-1, n)[0][free]
    for c_i, con in enumerate(kw.get("constraints") or []):
        funs = None
        if isinstance(con, dict):
            if "jac" in con:
                funs = (lambda x, con=con: np.atleast_1d(con["fun"](x)), lambda x, con=con: np.atleast_2d(con["jac"](x)))
            else:
                check(method in NO_GRADIENT, "jacobian-missing", f"constraint {c_i} has no jac for gradient-based {method}", case)
        # (constraint objects are only handed to differential_evolution, which never evaluates Jacobians)
        if funs is None:
            continue
        f0 = funs[0](x_a.copy())
        jac = funs[1](x_a.copy())
        for v in range(nf):
            step = np.zeros(nf)
            step[v] = 1.0
            d = (funs[0](x_a + step) - f0)
            check(bool(np.all(np.abs(d - jac[:, v]) <= 1e-9 * (1 + np.abs(d)))), "jacobian",
                  f"handed constraint {c_i}: jac column {v} = {jac[:, v].tolist()} but fun changes by {d.tolist()} per unit step", case)
    if method in NO_GRADIENT and cap.kind == "minimize":
        check(kw.get("jac") is False, "jacobian", f"gradient-free method {method} received jac={kw.get('jac')!r}", case)
    return info


SPELLINGS = ("plain", "qualified", "upper", "qualified-mixed")


def spell(method: str, style: str | None) -> str:
    """The same SciPy method as a configuration may write it: plug-in qualified and/or in another case."""
    return {"plain": method, "qualified": "scipy/" + method, "upper": method.upper(), "qualified-mixed": "SciPy/" + method.upper()}[style or "plain"]


def base_case(n: int, method: str, options: str, max_iterations: int | None) -> dict[str, Any]:
    pts = [((7 * i + 3 * j) % 11 - 5) * 0.37 + 0.05 * j for i in range(12) for j in range(n)]
    return {"n": n, "method": method, "options": options, "max_iterations": max_iterations, "mask": None,
            "x0": [0.1 * (i + 1) for i in range(n)], "lb": [-1.0] * n, "ub": [2.0] * n, "nl": [], "lin": [], "A": [],
            "a_nl": [], "b_nl": [], "points": pts}


def exhaustive_shard(item: dict[str, Any]) -> Collector:
    col = Collector(ID)
    n = 3
    combos = [(c, l) for c in range(item["cmax"] + 1) for l in range(item["cmax"] + 1)]
    count = 0
    for c_n, l_n in combos:
        big = c_n + l_n > 2  # noqa: PLR2004
        methods = ["slsqp", "cobyla", "differential_evolution"] if big else METHODS
        variants = [("none", None)] if big else [(o, m) for o in OPTIONS for m in (None, 7)]
        for kinds in itertools.product(KINDS, repeat=c_n + l_n):
            for method in methods:
                for options, maxit in variants:
                    count += 1
                    if count % item["parts"] != item["part"]:
                        continue
                    case = base_case(n, method, options, maxit)
                    if method == "cobyla":  # (the plug-in does not hand variable bounds to COBYLA: without them the constraints get through)
                        case["lb"], case["ub"] = [-np.inf] * n, [np.inf] * n
                    case["spelling"] = SPELLINGS[count % len(SPELLINGS)]
                    case["max_functions"] = (None, 1000)[(count // len(SPELLINGS)) % 2]
                    case["parallel"] = count % 3 != 0
                    case["output_dir"] = count % 4 == 1
                    case["nl"] = [list(kind_bounds(k, 0.25 * (i + 1), 1.0 + i)) for i, k in enumerate(kinds[:c_n])]
                    case["lin"] = [list(kind_bounds(k, -0.5 + 0.3 * i, 2.0)) for i, k in enumerate(kinds[c_n:])]
                    case["a_nl"] = [((2 * i + 3 * j) % 5 - 2.0) or 1.0 for i in range(c_n) for j in range(n)]
                    case["b_nl"] = [0.3 * i - 0.2 for i in range(c_n)]
                    case["A"] = [[((i + 2 * j) % 4 - 1.0) or 0.5 for j in range(n)] for i in range(l_n)]
                    info: dict[str, Any] = {}

                    def go(case: dict[str, Any] = case, info: dict[str, Any] = info) -> None:
                        info.update(run_case(case))

                    guard_call(col, case, go)
                    mixed = len(set(kinds)) > 1 or "two" in kinds
                    nontrivial = bool(info) and not info.get("rejected") and (
                        mixed or (maxit is not None and not isinstance(OPTIONS[options], dict)))
                    col.case((c_n, l_n, kinds, method, options, maxit), nontrivial=nontrivial,
                             classes=(f"method={method}", "rejected" if info.get("rejected") else "handed", f"C={c_n}", f"L={l_n}",
                                      f"options={options}"), sample=case)
    # variable-bound patterns x every method (no other constraints)
    if item["part"] == 0:
        for pattern in itertools.product(["none", "lower", "upper", "both"], repeat=2):
            for method in METHODS:
                case = base_case(2, method, "none", None)
                case["lb"] = [-1.0 if p in ("lower", "both") else -np.inf for p in pattern]
                case["ub"] = [2.0 if p in ("upper", "both") else np.inf for p in pattern]
                info = {}

                def go2(case: dict[str, Any] = case, info: dict[str, Any] = info) -> None:
                    info.update(run_case(case))

                guard_call(col, case, go2)
                col.case(("bounds", pattern, method), nontrivial=bool(info) and not info.get("rejected") and len(set(pattern)) > 1,
                         classes=(f"method={method}", "rejected" if info.get("rejected") else "handed", "bound-patterns"), sample=case)
    col.extra["exhaustive"] = True
    return col


def hypothesis_shard(item: dict[str, Any]) -> Collector:
    from hypothesis import strategies as st

    col = Collector(ID)
    num = st.sampled_from([-2.0, -1.0, -0.5, 0.25, 0.5, 1.0, 1.5, 3.0])

    @st.composite
    def cases(draw: Any) -> dict[str, Any]:  # noqa: ANN401
        n = draw(st.integers(1, 4))
        method = draw(st.sampled_from(METHODS + ["slsqp", "cobyla", "differential_evolution", "slsqp"]))
        case = base_case(n, method, draw(st.sampled_from(list(OPTIONS))), draw(st.sampled_from([None, None, 7, 1])))
        case["spelling"] = draw(st.sampled_from(SPELLINGS))
        case["max_functions"] = draw(st.sampled_from([None, None, 1000, 3]))
        mask = None
        if n > 1 and draw(st.booleans()):
            mask = draw(st.lists(st.booleans(), min_size=n, max_size=n))
            if not any(mask):
                mask[0] = True
        case["mask"] = mask
        nf = n if mask is None else sum(mask)
        lb, ub = [], []
        pattern = draw(st.sampled_from(["any", "any", "upper-only", "lower-only", "none"]))
        for _ in range(n):
            kind = draw(st.sampled_from({"any": ["two", "two", "lower", "upper", "free"], "upper-only": ["upper", "free", "upper"],
                                         "lower-only": ["lower", "free", "lower"], "none": ["free"]}[pattern]))
            lo = draw(st.sampled_from([-2.0, -1.0, 0.0]))
            lb.append(lo if kind in ("two", "lower") else -np.inf)
            ub.append(lo + draw(st.sampled_from([1.0, 3.0])) if kind in ("two", "upper") else np.inf)
        if method == "differential_evolution":
            lb = [v if np.isfinite(v) else -3.0 for v in lb]
            ub = [v if np.isfinite(v) else 4.0 for v in ub]
        case["lb"], case["ub"] = lb, ub
        case["parallel"] = method == "differential_evolution" and draw(st.booleans())
        case["output_dir"] = draw(st.integers(0, 2)) == 0
        case["x0"] = [draw(st.sampled_from([0.0, 0.5, -0.5, 1.0])) for _ in range(n)]
        case["types"] = [draw(st.sampled_from([1, 2])) for _ in range(n)] if draw(st.integers(0, 2)) == 0 else None
        c_n, l_n = draw(st.integers(0, 3)), draw(st.integers(0, 3))
        case["nl"] = [list(kind_bounds(draw(st.sampled_from(HYP_KINDS)), draw(num), draw(st.sampled_from([0.5, 2.0])))) for _ in range(c_n)]
        case["lin"] = [list(kind_bounds(draw(st.sampled_from(HYP_KINDS)), draw(num), draw(st.sampled_from([0.5, 2.0])))) for _ in range(l_n)]
        case["a_nl"] = [draw(num) for _ in range(c_n * nf)]
        case["b_nl"] = [draw(num) for _ in range(c_n)]
        rows = []
        for _ in range(l_n):
            row = [draw(st.sampled_from([0.0, 1.0, -1.0, 2.0, 0.5])) for _ in range(n)]
            if not any(row):
                row[draw(st.integers(0, n - 1))] = 1.0
            fixed_vars = [i for i in range(n) if mask is not None and not mask[i]]
            if len(fixed_vars) >= 2 and draw(st.integers(0, 2)) == 0:  # noqa: PLR2004
                # coefficients on fixed variables that cancel in their sum (the row still depends on the fixed values)
                i_a, i_b = fixed_vars[0], fixed_vars[-1]
                row[i_a] = draw(st.sampled_from([1.0, 2.0, 0.5]))
                row[i_b] = -row[i_a]
            rows.append(row)
        case["A"] = rows
        case["points"] = [draw(st.sampled_from([-2.5, -1.0, -0.3, 0.0, 0.4, 1.0, 1.7, 2.5, 5.0])) for _ in range(12 * n)]
        return case

    def body(case: dict[str, Any]) -> None:
        info = run_case(case)
        kinds = [tuple(b) for b in case["nl"] + case["lin"]]
        mixed = len({(np.isfinite(lo), np.isfinite(hi), lo == hi) for lo, hi in kinds}) > 1 or any(
            np.isfinite(lo) and np.isfinite(hi) and lo != hi for lo, hi in kinds)
        nontrivial = not info["rejected"] and (mixed or case["mask"] is not None or (
            case["max_iterations"] is not None and not isinstance(OPTIONS[case["options"]], dict)))
        col.case(case, nontrivial=nontrivial, classes=(
            f"method={case['method']}", "rejected" if info["rejected"] else "handed", "masked" if case["mask"] else "unmasked", "integer-variables" if case.get("types") and 2 in case["types"] else "real-variables",
            f"C={len(case['nl'])}", f"L={len(case['lin'])}"))

    run_hypothesis(col, cases(), body, seed=item["seed"], max_examples=item["examples"])
    return col


def shards(tier: str, seed: int) -> list[dict[str, Any]]:
    items: list[dict[str, Any]] = []
    parts = 8 if tier == "quick" else 32
    items.extend({"kind": "exh", "cmax": 2 if tier == "quick" else 3, "part": i, "parts": parts} for i in range(parts))
    nshard = 8 if tier == "quick" else 16
    examples = 200 if tier == "quick" else 4000
    items.extend({"kind": "hyp", "seed": seed * 1000 + i, "examples": examples} for i in range(nshard))
    return items


def run_shard(item: dict[str, Any]) -> Collector:
    return exhaustive_shard(item) if item["kind"] == "exh" else hypothesis_shard(item)


def replay(case: dict[str, Any]) -> None:
    run_case(case)
