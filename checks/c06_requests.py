"""C06 - Evaluator requests are complete and correctly labelled; inactive entries inert; no aliasing."""

from __future__ import annotations

import copy
from typing import Any

import numpy as np

from harness.core import Collector, check, guard_call, run_hypothesis
from harness.ropt_util import AffineEvaluator, ConstraintScaler, DesignSamplerPlugin, ObjectiveScaler
from ropt.config.enopt import EnOptConfig
from ropt.ensemble_evaluator import EnsembleEvaluator
from ropt.evaluator import EvaluatorContext, EvaluatorResult
from ropt.exceptions import OptimizationAborted
from ropt.plugins import PluginManager
from ropt.transforms import OptModelTransforms, VariableScaler

ID = "C06"
LEVEL = "exploration"
RULE = (
    "Hypothesis: ensembles R in 1..4, K in 1..2, C in 0..2, n in 1..3, P in 1..3; realization weights with zeros and with tiny non-zero entries (2e-9, 5e-13); 0-1 "
    "filters (sort/cvar) on objectives and/or constraints; variable/objective/constraint scaling transforms; "
    "evaluation_info present or not; histories of 1-6 calculate() calls on one EnsembleEvaluator (functions on single "
    "vectors or batches of 1-3, gradients after functions at the same point = split, gradients alone, both; a third of "
    "the histories follow optimizer-like F,G,F,G.. patterns at moving points); evaluator "
    "variants: label-driven recording evaluator, two different garbage fillings of inactive entries (moderate values, or 1e160 against a moderate one), mean or stddev estimator, memoizing "
    "evaluator that returns the same EvaluatorResult object / arrays for repeated requests, evaluator that returns "
    "write-protected views of persistent buffers it refills on the next call, evaluators that return Fortran-ordered, strided, float32 or integer arrays; x handed in as a write-protected view. Oracle: trace predicate "
    "(needed label set each once, user-domain variables, reported value == transform(returned value at that label), "
    "inactive => weight 0, split: weight 0 => inactive), garbage metamorphic relation, deep-copy comparison of the "
    "evaluator's objects, immutability of delivered results. "
    "Non-trivial: >=1 inactive entry, or a memoized repeat, or a transform."
)
ASSUMPTIONS = [
    "no evaluation failures (NaN) in this check; C03 covers them",
    "'reported result' for the garbage relation = functions, gradients, realization weights and failure flags "
    "(the raw per-realization arrays necessarily contain whatever was returned for inactive entries)",
    "float comparisons of variables rows use 1e-12 relative tolerance (scaling round trip)",
]

_GARBAGE = (777.25, -31.5)
_HUGE = (1e160, -31.5)  # (one huge, one moderate: two huge values could both turn a result into NaN)


def _extreme(_call: int, row: int, _kind: str, _col: int) -> float:
    """Values close to the largest float with alternating sign: their differences and squares overflow."""
    return 1.5e308 if row % 2 == 0 else -1.5e308


class Memo:
    """Memoizing wrapper: identical requests get the *same* EvaluatorResult object back."""

    def __init__(self, inner: AffineEvaluator) -> None:  # noqa: D107
        self.inner = inner
        self.cache: dict[bytes, tuple[EvaluatorResult, Any]] = {}
        self.repeats = 0
        self.calls = inner.calls

    def __call__(self, variables: np.ndarray, context: EvaluatorContext) -> EvaluatorResult:
        key = b"|".join([
            np.ascontiguousarray(variables).tobytes(), np.ascontiguousarray(context.realizations).tobytes(),
            b"" if context.perturbations is None else np.ascontiguousarray(context.perturbations).tobytes(),
            b"" if context.active_objectives is None else np.ascontiguousarray(context.active_objectives).tobytes(),
            b"" if context.active_constraints is None else np.ascontiguousarray(context.active_constraints).tobytes(),
        ])
        if key in self.cache:
            self.repeats += 1
            result = self.cache[key][0]
            # keep the trace complete
            self.inner(variables, context)
            self.inner.calls[-1]["returned"] = result
            return result
        result = self.inner(variables, context)
        self.cache[key] = (result, snapshot(result))
        return result


class Persistent:
    """Evaluator that keeps persistent bookkeeping buffers and hands out write-protected views of them."""

    def __init__(self, inner: AffineEvaluator) -> None:  # noqa: D107
        self.inner = inner
        self.calls = inner.calls
        k_n = inner.a_obj.shape[1]
        c_n = 0 if inner.a_con is None else inner.a_con.shape[1]
        self.obj = np.zeros((64, k_n))
        self.con = np.zeros((64, c_n)) if c_n else None
        self.tag = np.zeros(64)

    def __call__(self, variables: np.ndarray, context: EvaluatorContext) -> EvaluatorResult:
        res = self.inner(variables, context)
        rows = variables.shape[0]
        self.obj[:rows] = res.objectives
        obj = self.obj[:rows]
        obj.flags.writeable = False
        con = None
        if self.con is not None:
            self.con[:rows] = res.constraints
            con = self.con[:rows]
            con.flags.writeable = False
        info = {}
        for key, value in res.evaluation_info.items():
            self.tag[:rows] = value
            info[key] = self.tag[:rows]
            info[key].flags.writeable = False
        result = EvaluatorResult(objectives=obj, constraints=con, evaluation_info=info)
        self.inner.calls[-1]["returned"] = result
        return result

    def scribble(self) -> None:
        self.obj[...] = -12345.0
        if self.con is not None:
            self.con[...] = -12345.0
        self.tag[...] = -1.0


class Layout:
    """Evaluator whose arrays are Fortran-ordered, strided views of a larger array, or float32."""

    def __init__(self, inner: AffineEvaluator, kind: str) -> None:  # noqa: D107
        self.inner, self.kind, self.calls = inner, kind, inner.calls

    def convert(self, a: np.ndarray | None) -> np.ndarray | None:
        if a is None:
            return None
        if self.kind == "fortran":
            return np.asfortranarray(a)
        if self.kind == "float32":
            return a.astype(np.float32)
        if self.kind == "integer":  # an evaluator that happens to produce whole numbers in an integer array
            return np.rint(a).astype(np.int64)
        big = np.full((a.shape[0] * 2, a.shape[1] * 3), -4321.0)
        big[::2, ::3] = a
        return big[::2, ::3]

    def __call__(self, variables: np.ndarray, context: EvaluatorContext) -> EvaluatorResult:
        res = self.inner(variables, context)
        result = EvaluatorResult(objectives=self.convert(res.objectives), constraints=self.convert(res.constraints),
                                 evaluation_info=res.evaluation_info)
        record = self.inner.calls[-1]
        record["returned"] = result
        record["objectives"] = np.array(result.objectives, dtype=np.float64)
        record["constraints"] = None if result.constraints is None else np.array(result.constraints, dtype=np.float64)
        return result


def snapshot(result: EvaluatorResult) -> dict[str, Any]:
    return {
        "objectives": (result.objectives, result.objectives.copy()),
        "constraints": (result.constraints, None if result.constraints is None else result.constraints.copy()),
        "info": {k: (v, v.copy()) for k, v in result.evaluation_info.items()},
        "batch_id": result.batch_id,
    }


def check_untouched(case: Any, result: EvaluatorResult, snap: dict[str, Any], where: str) -> None:  # noqa: ANN401
    obj_ref, obj_copy = snap["objectives"]
    check(result.objectives is obj_ref, "evaluator-object-modified", f"{where}: EvaluatorResult.objectives was rebound", case)
    check(bool(np.array_equal(obj_ref, obj_copy, equal_nan=True)), "evaluator-array-modified", f"{where}: the evaluator's objectives array was written to", case)
    con_ref, con_copy = snap["constraints"]
    check(result.constraints is con_ref, "evaluator-object-modified", f"{where}: EvaluatorResult.constraints was rebound", case)
    if con_ref is not None:
        check(bool(np.array_equal(con_ref, con_copy, equal_nan=True)), "evaluator-array-modified", f"{where}: the evaluator's constraints array was written to", case)
    check(set(result.evaluation_info) == set(snap["info"]), "evaluator-object-modified", f"{where}: evaluation_info keys changed", case)
    for k, (ref, cp) in snap["info"].items():
        check(result.evaluation_info[k] is ref and bool(np.array_equal(ref, cp)), "evaluator-array-modified",
              f"{where}: evaluation_info[{k}] was modified", case)


def build(case: dict[str, Any], garbage: float | None, memo: bool) -> tuple[EnOptConfig, Any, PluginManager, OptModelTransforms | None]:  # noqa: FBT001
    n, r_n, k_n, c_n, p_n = case["n"], case["R"], case["K"], case["C"], case["P"]
    cfg: dict[str, Any] = {
        "variables": {"initial_values": [0.0] * n},
        "realizations": {"weights": case["weights"], "realization_min_success": 0},
        "objectives": {"weights": case.get("obj_weights") or [1.0] * k_n},
        "gradient": {"number_of_perturbations": p_n, "perturbation_magnitudes": 0.1, "boundary_types": 1},
        "samplers": [{"method": "design/fixed"}],
        "realization_filters": case["filters"],
    }
    if case.get("estimator"):
        cfg["function_estimators"] = [{"method": case["estimator"]}]
    if case["filters"] and case["obj_filt"] is not None:
        cfg["objectives"]["realization_filters"] = case["obj_filt"]
    if c_n:
        cfg["nonlinear_constraints"] = {"lower_bounds": [0.0] * c_n, "upper_bounds": [np.inf] * c_n}
        if case["filters"] and case["con_filt"] is not None:
            cfg["nonlinear_constraints"]["realization_filters"] = case["con_filt"]
    transforms = None
    if case["transforms"]:
        transforms = OptModelTransforms(
            variables=VariableScaler(np.array(case["vscale"]), np.array(case["voff"])) if "v" in case["transforms"] else None,
            objectives=ObjectiveScaler(case["oscale"]) if "o" in case["transforms"] else None,
            nonlinear_constraints=ConstraintScaler(case["cscale"]) if "c" in case["transforms"] and c_n else None,
        )
    config = EnOptConfig.model_validate(cfg, context=transforms)
    a = np.array(case["slopes"], dtype=np.float64).reshape(r_n, k_n + c_n, n)
    b = np.array(case["offsets"], dtype=np.float64).reshape(r_n, k_n + c_n)
    ev: Any = AffineEvaluator(a[:, :k_n], b[:, :k_n], a[:, k_n:] if c_n else None, b[:, k_n:] if c_n else None,
                              garbage=garbage, info=case["info"])
    ev.use_summary = bool(case.get("use_summary"))
    if memo:
        ev = Memo(ev)
    elif case.get("readonly"):
        ev = Persistent(ev)
    elif case.get("layout") and not case["memo"]:  # (the same array kind in both runs of the garbage relation)
        ev = Layout(ev, case["layout"])
    design = np.array(case["design"], dtype=np.float64).reshape(r_n, p_n, n)
    manager = PluginManager()
    manager.add_plugin("sampler", "design", DesignSamplerPlugin([design, design * 0.5, -design]))
    return config, ev, manager, transforms


def walk_arrays(obj: Any, path: str = "result") -> list[tuple[str, np.ndarray]]:  # noqa: ANN401
    out: list[tuple[str, np.ndarray]] = []
    if isinstance(obj, np.ndarray):
        out.append((path, obj))
    elif isinstance(obj, dict):
        for k, v in obj.items():
            out.extend(walk_arrays(v, f"{path}[{k!r}]"))
    elif isinstance(obj, (list, tuple)):
        for i, v in enumerate(obj):
            out.extend(walk_arrays(v, f"{path}[{i}]"))
    elif hasattr(obj, "__dataclass_fields__"):
        for name in obj.__dataclass_fields__:
            if name in ("metadata",):
                continue
            out.extend(walk_arrays(getattr(obj, name), f"{path}.{name}"))
    return out


def rows_match(a: np.ndarray, b: np.ndarray) -> bool:
    with np.errstate(invalid="ignore", over="ignore"):  # (an inactive entry close to the largest float may become infinite in a transform)
        return a.shape == b.shape and bool(np.all((a == b) | (np.abs(a - b) <= 1e-12 * (1 + np.abs(b)))))


def run_history(case: dict[str, Any], garbage: float | None, memo: bool) -> dict[str, Any]:  # noqa: C901, FBT001, PLR0912, PLR0915
    cfg, ev, manager, transforms = build(case, garbage, memo)
    n, r_n, k_n, c_n, p_n = case["n"], case["R"], case["K"], case["C"], case["P"]
    ens = EnsembleEvaluator(cfg, transforms, ev, manager)
    configured = np.asarray(cfg.realizations.weights)
    outputs: list[Any] = []
    delivered: list[tuple[Any, Any]] = []
    stats = {"inactive": 0, "repeats": 0, "aborted": False, "splits": 0}
    last_f: tuple[np.ndarray, Any] | None = None  # (x, function result) cached by the evaluator

    def to_user(v: np.ndarray) -> np.ndarray:
        return v if transforms is None or transforms.variables is None else transforms.variables.from_optimizer(v)

    def t_obj(v: np.ndarray) -> np.ndarray:
        return v if transforms is None or transforms.objectives is None else transforms.objectives.to_optimizer(v)

    def t_con(v: np.ndarray) -> np.ndarray:
        return v if transforms is None or transforms.nonlinear_constraints is None else transforms.nonlinear_constraints.to_optimizer(v)

    for op in case["history"]:
        kind = op[0]
        ncalls = len(ev.calls)
        x_base = np.array(op[1], dtype=np.float64)
        x = x_base
        if case.get("ro_x"):  # the caller hands in a write-protected view of a vector it keeps updating
            x = x_base.view()
            x.flags.writeable = False
        try:
            if kind == "F":
                results = ens.calculate(x if x.shape[0] > 1 or not op[2] else x[0], compute_functions=True, compute_gradients=False)
            elif kind == "G":
                results = ens.calculate(x[0], compute_functions=False, compute_gradients=True)
            else:
                results = ens.calculate(x[0], compute_functions=True, compute_gradients=True)
        except OptimizationAborted:
            stats["aborted"] = True
            break
        check(len(ev.calls) == ncalls + 1, "call-count", f"{kind}: {len(ev.calls) - ncalls} evaluator calls for one request", case)
        call = ev.calls[-1]
        returned: EvaluatorResult = call["returned"]
        rv, rr, rp = call["variables"], call["realizations"], call["perturbations"]
        ao, ac = call["active_objectives"], call["active_constraints"]
        split = kind == "G" and len(results) == 1
        if kind == "G" and not split:
            # no usable cached function value: functions and gradients are evaluated together
            check(last_f is None or not np.array_equal(last_f[0], x[0]), "cache-miss", "gradient-only request at the cached point re-evaluated functions", case)
        # ---- 1. needed set, labels, user-domain variables
        fres = next((r for r in results if hasattr(r, "functions")), None)
        gres = next((r for r in results if hasattr(r, "gradients")), None)
        expected: list[tuple[int, int, np.ndarray]] = []
        if kind == "F":
            check(not call["has_perturbations"] or bool(np.all(rp < 0)), "labels", "function request carries perturbation labels", case)
            pts = x if (x.shape[0] > 1 or not op[2]) else x[:1]
            for b_i in range(pts.shape[0]):
                expected.extend((r, -1, to_user(pts[b_i])) for r in range(r_n))
        else:
            assert gres is not None
            pv = np.asarray(gres.evaluations.perturbed_variables)
            check(pv.shape == (r_n, p_n, n), "shape", f"perturbed_variables shape {pv.shape}", case)
            if not split:
                expected.extend((r, -1, to_user(x[0])) for r in range(r_n))
            expected.extend((r, p, to_user(pv[r, p])) for r in range(r_n) for p in range(p_n))
        check(rv.shape[0] == len(expected), "request-count", f"{kind}: {rv.shape[0]} rows requested, {len(expected)} needed", case)
        got = sorted(((int(rr[i]), int(rp[i]), tuple(rv[i])) for i in range(rv.shape[0])), key=lambda t: (t[0], t[1], t[2]))
        exp = sorted(((r, p, tuple(v)) for r, p, v in expected), key=lambda t: (t[0], t[1], t[2]))
        for g, e in zip(got, exp):
            check(g[0] == e[0] and g[1] == e[1] and rows_match(np.array(g[2]), np.array(e[2])), "request-set",
                  f"{kind}: requested (realization, perturbation, variables) {g} but {e} is needed "
                  f"(all requested labels: {[(t[0], t[1]) for t in got]})", case)
        # ---- 2. reported value == transform(returned value at the row with that label)
        robj = t_obj(np.asarray(returned.objectives, dtype=np.float64))
        rcon = None if returned.constraints is None else t_con(np.asarray(returned.constraints, dtype=np.float64))

        def rows_of(r: int, p: int, v: np.ndarray) -> list[int]:
            # (a batch may hold the same vector twice: rows with the same label and variables are interchangeable)
            return [i for i in range(rv.shape[0]) if int(rr[i]) == r and int(rp[i]) == p and rows_match(rv[i], v)]

        def from_row(r: int, p: int, v: np.ndarray, rep_obj: Any, rep_con: Any, what: str) -> None:  # noqa: ANN401
            cand = rows_of(r, p, v)
            check(any(rows_match(np.asarray(rep_obj), robj[i]) for i in cand), "value-label",
                  f"{kind}: {what} objectives are not the values returned for the row with that label", case)
            if rcon is not None and rep_con is not None:
                check(any(rows_match(np.asarray(rep_obj), robj[i]) and rows_match(np.asarray(rep_con), rcon[i]) for i in cand), "value-label",
                      f"{kind}: {what} constraints are not the values returned for the row with that label", case)

        if kind == "F":
            pts = x if (x.shape[0] > 1 or not op[2]) else x[:1]
            check(len(results) == pts.shape[0], "result-count", f"{len(results)} results for {pts.shape[0]} vectors", case)
            for b_i, res in enumerate(results):
                check(bool(np.array_equal(np.asarray(res.evaluations.variables), pts[b_i])), "variables", "reported variables differ", case)
                for r in range(r_n):
                    from_row(r, -1, to_user(pts[b_i]), np.asarray(res.evaluations.objectives)[r],
                             None if rcon is None else np.asarray(res.evaluations.constraints)[r], f"realization {r}:")
        else:
            assert gres is not None
            pv = np.asarray(gres.evaluations.perturbed_variables)
            for r in range(r_n):
                if fres is not None:
                    from_row(r, -1, to_user(x[0]), np.asarray(fres.evaluations.objectives)[r], None, f"realization {r}:")
                for p in range(p_n):
                    from_row(r, p, to_user(pv[r, p]), np.asarray(gres.evaluations.perturbed_objectives)[r, p],
                             None if rcon is None else np.asarray(gres.evaluations.perturbed_constraints)[r, p], f"perturbed ({r},{p}):")
        # ---- 3. activity flags
        if split:
            assert last_f is not None
            stats["splits"] += 1
            ow, cw = last_f[1].realizations.objective_weights, last_f[1].realizations.constraint_weights
            w_obj = np.tile(configured, (k_n, 1)) if ow is None else np.asarray(ow)
            w_con = None if not c_n else (np.tile(configured, (c_n, 1)) if cw is None else np.asarray(cw))
            a_obj = np.ones((k_n, r_n), dtype=bool) if ao is None and ac is None else ao
            a_con = None if not c_n else (np.ones((c_n, r_n), dtype=bool) if ao is None and ac is None else ac)
            check(a_obj is not None, "active-flags", "active_objectives missing although active_constraints is given", case)
            check(bool(np.all(w_obj[~a_obj] == 0)), "inactive-with-weight", "an objective entry with non-zero weight is flagged inactive", case)
            check(bool(np.all(~a_obj[w_obj == 0])), "zero-weight-active", "split gradient: an objective entry with zero weight is flagged active", case)
            if c_n:
                check(a_con is not None, "zero-weight-active" if bool(np.any(w_con == 0)) else "active-flags",
                      "split gradient: constraint activity flags missing", case) if bool(np.any(w_con == 0)) else None
                if a_con is not None:
                    check(bool(np.all(w_con[~a_con] == 0)), "inactive-with-weight", "a constraint entry with non-zero weight is flagged inactive", case)
                    check(bool(np.all(~a_con[w_con == 0])), "zero-weight-active", "split gradient: a constraint entry with zero weight is flagged active", case)
            stats["inactive"] += int((~a_obj).sum())
        else:
            # weights in force after this evaluation: filter rows where reported, configured otherwise
            ref = fres if fres is not None else None
            if ao is not None or ac is not None:
                assert ref is not None
                for res in ([ref] if kind != "F" else results):
                    ow, cw = res.realizations.objective_weights, res.realizations.constraint_weights
                    w_obj = np.tile(configured, (k_n, 1)) if ow is None else np.asarray(ow)
                    if ao is not None:
                        check(bool(np.all(w_obj[~ao] == 0)), "inactive-with-weight",
                              "an objective entry flagged inactive ends up with a non-zero weight", case)
                        stats["inactive"] += int((~ao).sum())
                    if ac is not None and c_n:
                        w_con = np.tile(configured, (c_n, 1)) if cw is None else np.asarray(cw)
                        check(bool(np.all(w_con[~ac] == 0)), "inactive-with-weight",
                              "a constraint entry flagged inactive ends up with a non-zero weight", case)
        # ---- 3b. the per-realization summary flag: inactive => every entry of that realization has zero weight
        act = call["active"]
        if act is not None:
            wsrc = last_f[1] if split and last_f is not None else (fres if fres is not None else None)
            if wsrc is not None:
                ow, cw = wsrc.realizations.objective_weights, wsrc.realizations.constraint_weights
                w_all = [np.tile(configured, (k_n, 1)) if ow is None else np.asarray(ow)]
                if c_n:
                    w_all.append(np.tile(configured, (c_n, 1)) if cw is None else np.asarray(cw))
                w_any = np.vstack(w_all)
                for r in range(r_n):
                    if not act[r]:
                        check(bool(np.all(w_any[:, r] == 0)), "inactive-with-weight",
                              f"realization {r} is flagged inactive (context.active) although it carries weight {w_any[:, r].tolist()}", case)
        elif ao is not None or ac is not None:
            check(False, "active-flags", "context.active is None although per-function activity flags are given", case)  # noqa: FBT003
        # ---- 5a. the evaluator's object and arrays are untouched
        if isinstance(ev, Memo):
            for res_obj, snap in ev.cache.values():
                check_untouched(case, res_obj, snap, f"after call {len(ev.calls)}")
        else:
            check(returned.objectives is call["returned"].objectives, "harness", "", case)
            check(bool(np.array_equal(returned.objectives, call["objectives"], equal_nan=True)), "evaluator-array-modified",
                  "the evaluator's objectives array was written to", case)
            if returned.constraints is not None:
                check(bool(np.array_equal(returned.constraints, call["constraints"], equal_nan=True)), "evaluator-array-modified",
                      "the evaluator's constraints array was written to", case)
        if kind == "F":
            last_f = (np.array(results[0].evaluations.variables), results[0])
        elif not split and fres is not None:
            last_f = None  # the evaluator drops its cache on a combined evaluation
        for res in results:
            delivered.append((res, copy.deepcopy(res)))
        outputs.append([summarise(r) for r in results])
        # ---- 5b. the harness scribbles over everything it owns
        if isinstance(ev, Persistent):
            ev.scribble()
        else:
            returned.objectives[...] = -12345.0
            if returned.constraints is not None:
                returned.constraints[...] = -12345.0
            for v in returned.evaluation_info.values():
                v[...] = -1
        if isinstance(ev, Memo):
            ev.cache.clear()
        x_base[...] = 99.0
        for res, saved in delivered:
            for (path, arr), (_, arr0) in zip(walk_arrays(res), walk_arrays(saved)):
                check(bool(np.array_equal(arr, arr0, equal_nan=True)), "result-changed-later",
                      f"{path} of an already delivered result changed after the evaluator's arrays were overwritten", case)
                check(not arr.flags.writeable, "result-writable", f"{path} of a delivered result is writable", case)
    if isinstance(ev, Memo):
        stats["repeats"] = ev.repeats
    stats["outputs"] = outputs
    return stats


def summarise(res: Any) -> dict[str, Any]:  # noqa: ANN401
    out: dict[str, Any] = {"failed": np.asarray(res.realizations.failed_realizations).tolist()}
    for name in ("objective_weights", "constraint_weights"):
        v = getattr(res.realizations, name)
        out[name] = None if v is None else np.asarray(v).tolist()
    if hasattr(res, "functions"):
        f = res.functions
        out["functions"] = None if f is None else [np.asarray(f.weighted_objective).tolist(), np.asarray(f.objectives).tolist(),
                                                   None if f.constraints is None else np.asarray(f.constraints).tolist()]
    else:
        g = res.gradients
        out["gradients"] = None if g is None else [np.asarray(g.weighted_objective).tolist(), np.asarray(g.objectives).tolist(),
                                                   None if g.constraints is None else np.asarray(g.constraints).tolist()]
    return out


def run_case(case: dict[str, Any]) -> dict[str, Any]:
    garbage: Any = _HUGE if case.get("huge") else _GARBAGE  # any finite value may sit in an inactive entry
    if case.get("huge") == "extreme":
        garbage = (_extreme, -31.5)
    s1 = run_history(case, garbage[0], case["memo"])
    s2 = run_history(case, garbage[1], False)
    if not s1["aborted"] and not s2["aborted"]:
        same = _equal(s1["outputs"], s2["outputs"])
        sig = "garbage-changes-result"
        check(same, sig, "two runs that differ only in the values returned for inactive entries report different results: "
              f"{_first_diff(s1['outputs'], s2['outputs'])}", case)
    return s1


def _equal(a: Any, b: Any) -> bool:  # noqa: ANN401
    if isinstance(a, (list, tuple)) and isinstance(b, (list, tuple)):
        return len(a) == len(b) and all(_equal(x, y) for x, y in zip(a, b))
    if isinstance(a, dict) and isinstance(b, dict):
        return a.keys() == b.keys() and all(_equal(a[k], b[k]) for k in a)
    if isinstance(a, float) and isinstance(b, float):
        return a == b or (a != a and b != b)  # noqa: PLR0124
    return a == b


def _first_diff(a: Any, b: Any) -> str:  # noqa: ANN401
    for i, (x, y) in enumerate(zip(a, b)):
        if not _equal(x, y):
            return f"call {i}: {x} vs {y}"[:400]
    return ""


def hypothesis_shard(item: dict[str, Any]) -> Collector:
    from hypothesis import strategies as st

    col = Collector(ID)
    num = st.sampled_from([-2.0, -1.0, -0.5, 0.25, 1.0, 1.5, 3.0])

    @st.composite
    def cases(draw: Any) -> dict[str, Any]:  # noqa: ANN401
        n, r_n, p_n = draw(st.integers(1, 3)), draw(st.integers(1, 4)), draw(st.integers(1, 3))
        k_n, c_n = draw(st.integers(1, 2)), draw(st.integers(0, 2))
        weights = [draw(st.sampled_from([0.0, 0.0, 1.0, 1.0, 2.0, 2e-9, 5e-13])) for _ in range(r_n)]  # tiny is not zero
        if sum(weights) == 0:
            weights[draw(st.integers(0, r_n - 1))] = 1.0
        filters = []
        if draw(st.booleans()):
            fk = draw(st.sampled_from(["sort-objective", "cvar-objective"] + (["sort-constraint", "cvar-constraint"] if c_n else [])))
            if fk.startswith("sort"):
                first = draw(st.integers(0, r_n - 1))
                opts: dict[str, Any] = {"first": first, "last": draw(st.integers(first, r_n - 1))}
            else:
                opts = {"percentile": draw(st.sampled_from([0.3, 0.5, 0.8, 1.0]))}
            opts["sort"] = [0] if fk.endswith("objective") else 0
            filters.append({"method": fk, "options": opts})
        pts = [[draw(st.sampled_from([0.0, 0.5, -1.0, 2.0])) for _ in range(n)] for _ in range(3)]
        history = []
        pattern = draw(st.sampled_from([None, None, "FGFG", "FGFGFG", "FGBFG"]))  # optimizer-like sequences at moving points
        for step in range(len(pattern) if pattern else draw(st.integers(1, 4))):
            kind = pattern[step] if pattern else draw(st.sampled_from(["F", "F", "G", "B"]))
            if pattern and kind == "G":
                history.append(["G", [history[-1][1][0]]])
            elif kind == "F":
                b_n = draw(st.integers(1, 3))
                history.append(["F", [pts[draw(st.integers(0, 2))] for _ in range(b_n)], draw(st.booleans())])
            elif kind == "G" and history and history[-1][0] == "F" and draw(st.integers(0, 3)) > 0:
                history.append(["G", [history[-1][1][0]]])
            else:
                history.append([kind, [pts[draw(st.integers(0, 2))]]])
        tr = draw(st.sampled_from(["", "", "v", "o", "c", "voc"]))
        return finish({
            "n": n, "R": r_n, "P": p_n, "K": k_n, "C": c_n, "weights": weights, "filters": filters,
            "obj_filt": [draw(st.integers(-1, 0)) for _ in range(k_n)] if draw(st.booleans()) else None,
            "con_filt": [draw(st.integers(-1, 0)) for _ in range(c_n)] if c_n and draw(st.booleans()) else None,
            "slopes": [draw(num) for _ in range(r_n * (k_n + c_n) * n)], "offsets": [draw(num) for _ in range(r_n * (k_n + c_n))],
            "design": [draw(st.sampled_from([-1.0, 1.0, 0.5, 0.0])) for _ in range(r_n * p_n * n)],
            "estimator": draw(st.sampled_from([None, None, "mean", "stddev"])) if r_n > 1 else None,
            # an objective that is only monitored (objective weight 0) is still evaluated and reported
            "obj_weights": [1.0] + [draw(st.sampled_from([0.0, 0.0, 2.0])) for _ in range(k_n - 1)] if k_n > 1 and draw(st.booleans()) else None, "huge": draw(st.sampled_from([False, False, False, False, True, True, "extreme"])), "use_summary": draw(st.booleans()),
            "history": history, "memo": draw(st.booleans()), "readonly": draw(st.booleans()), "ro_x": draw(st.booleans()),
            "info": draw(st.booleans()), "layout": draw(st.sampled_from([None, None, "fortran", "strided", "float32", "integer"])),
            "transforms": tr, "vscale": [draw(st.sampled_from([0.5, 2.0, 4.0])) for _ in range(n)],
            "voff": [draw(st.sampled_from([0.0, 1.0])) for _ in range(n)],
            "oscale": [draw(st.sampled_from([2.0, 0.5])) for _ in range(k_n)],
            "cscale": [draw(st.sampled_from([4.0, 0.25])) for _ in range(c_n)],
        })

    def finish(case: dict[str, Any]) -> dict[str, Any]:
        if case["layout"] in ("float32", "integer"):
            case["huge"] = False  # 1e160 is not a finite float32 / int64
        return case

    def body(case: dict[str, Any]) -> None:
        stats = run_case(case)
        nontrivial = stats["inactive"] > 0 or stats["repeats"] > 0 or bool(case["transforms"])
        kinds = {op[0] for op in case["history"]}
        col.case(case, nontrivial=nontrivial, classes=(
            "inactive-entries" if stats["inactive"] else "all-active", "memo-repeat" if stats["repeats"] else "no-repeat",
            f"transforms={case['transforms'] or 'none'}", "filters" if case["filters"] else "no-filters",
            "zero-weights" if 0.0 in case["weights"] else "positive-weights", f"estimator={case['estimator'] or 'default'}",
            ("extreme-garbage" if case["huge"] == "extreme" else "huge-garbage") if case["huge"] else "moderate-garbage", "zero-objective-weight" if case["obj_weights"] and 0.0 in case["obj_weights"] else "positive-objective-weights", "tiny-weights" if any(0 < w < 1e-6 for w in case["weights"]) else "no-tiny-weights", *(f"op={k}" for k in sorted(kinds)),
            "aborted" if stats["aborted"] else "completed", "info" if case["info"] else "no-info",
            "persistent-readonly-buffers" if case["readonly"] and not case["memo"] else "fresh-or-memo-arrays",
            "readonly-x" if case["ro_x"] else "plain-x",
            f"layout={case['layout']}" if case["layout"] and not case["memo"] and not case["readonly"] else "layout=c-contiguous-float64", f"splits={stats['splits']}" if stats["splits"] < 2 else "splits>=2"))  # noqa: PLR2004

    run_hypothesis(col, cases(), body, seed=item["seed"], max_examples=item["examples"])
    return col


def grid_shard(item: dict[str, Any]) -> Collector:
    """Every filter-index map of K objectives and C constraints over two filters (one ranking an objective, one a constraint) x
    weight vectors with and without a zero x request patterns (function then gradient, both at once, repeated); fixed values."""
    import itertools

    col = Collector(ID)
    k_n, c_n = item["K"], item["C"]
    r_n, n, p_n = 4, 2, 2
    filters = [{"method": "sort-objective", "options": {"sort": [0], "first": 1, "last": 2}},
               {"method": "cvar-constraint" if c_n else "cvar-objective", "options": {"sort": 0 if c_n else [0], "percentile": 0.5}}]
    x0, x1 = [[0.5, -1.0]], [[0.25, 2.0]]
    patterns = {"split": [["F", x0, False], ["G", x0]], "both": [["B", x0]], "split-twice": [["F", x0, False], ["G", x0], ["F", x1, False], ["G", x1]],
                "batch-then-gradient": [["F", [x0[0], x1[0]], False], ["G", x1]]}
    # (None: the map is not given at all - not the same code path as a map of -1 entries)
    obj_maps = [None, *itertools.product((-1, 0, 1), repeat=k_n)]
    con_maps = [None, *itertools.product((-1, 0, 1), repeat=c_n)] if c_n else [None]
    for obj_filt in obj_maps:
        for con_filt in con_maps:
            for weights, (pname, history), summary in itertools.product(([1.0, 2.0, 3.0, 0.5], [1.0, 0.0, 3.0, 0.5]), patterns.items(), (False, True)):
                case = {
                    "n": n, "R": r_n, "P": p_n, "K": k_n, "C": c_n, "weights": weights, "filters": filters, "obj_filt": None if obj_filt is None else list(obj_filt),
                    "con_filt": None if con_filt is None else list(con_filt),
                    "slopes": [0.25 * (((7 * i) % 11) - 5) for i in range(r_n * (k_n + c_n) * n)],
                    "offsets": [0.5 * (((5 * i) % 13) - 6) for i in range(r_n * (k_n + c_n))],
                    "design": [((3 * i) % 5 - 2.0) or 1.0 for i in range(r_n * p_n * n)], "estimator": None, "obj_weights": None, "huge": False,
                    "history": history, "memo": False, "readonly": False, "ro_x": False, "info": False, "layout": None, "transforms": "",
                    "vscale": [0.5] * n, "voff": [0.0] * n, "oscale": [2.0] * k_n, "cscale": [4.0] * c_n, "use_summary": summary,
                }
                stats: dict[str, Any] = {}

                def go(case: dict[str, Any] = case, stats: dict[str, Any] = stats) -> None:
                    stats.update(run_case(case))

                guard_call(col, case, go)
                col.case((k_n, c_n, obj_filt, con_filt, tuple(weights), pname, summary), nontrivial=bool(stats.get("inactive")),
                         classes=("filter-map-grid", f"pattern={pname}", "zero-weights" if 0.0 in weights else "positive-weights",
                                  "aborted" if stats.get("aborted") else "completed"), sample=case)
    col.extra["exhaustive"] = True
    return col


def shards(tier: str, seed: int) -> list[dict[str, Any]]:
    nshard = 8 if tier == "quick" else 16
    examples = 250 if tier == "quick" else 3000
    grid = [{"kind": "grid", "K": k_n, "C": c_n} for k_n, c_n in ((1, 1), (2, 1), (1, 2), (2, 0))]
    return [*grid, *({"seed": seed * 1000 + i, "examples": examples} for i in range(nshard))]


def run_shard(item: dict[str, Any]) -> Collector:
    return grid_shard(item) if item.get("kind") == "grid" else hypothesis_shard(item)


def replay(case: dict[str, Any]) -> None:
    run_case(case)
