"""C04 - CVaR filter weights realize the tail expectation over the worst fraction."""

from __future__ import annotations

import itertools
import math
from fractions import Fraction
from typing import Any

import numpy as np

from harness.core import Collector, Violation, check, guard_call, run_hypothesis
from ropt.config.enopt import EnOptConfig
from ropt.ensemble_evaluator import EnsembleEvaluator
from ropt.enums import OptimizerExitCode
from ropt.exceptions import OptimizationAborted
from ropt.plugins import PluginManager

ID = "C04"
LEVEL = "exploration"
RULE = (
    "exhaustive tier: all failure masks x all permutations of distinct ranked values x percentile grid "
    "{k/(2m), j/20, each -1/+1 ulp} in (0,1] for n<=5 (quick) / n<=7 (thorough), flavours objective, "
    "constraint upper-only/lower-only/equality/two-sided; hypothesis tier: n<=40 with ties, arbitrary "
    "float percentiles, weighted multi-objective keys, plus end-to-end runs through EnsembleEvaluator. "
    "Oracle = exact rational staircase clip(p - j/m, 0, 1/m). "
    "A filter object may be asked several times with other values and failures. Non-trivial: m>=2 successes and 0 < p*m < m (a proper tail), or p*m within 1 ulp of an integer."
)
ASSUMPTIONS = [
    "filter inputs satisfy the caller-guaranteed precondition: a failed realization is an all-NaN row",
    "values closer than 1e-9 are treated as tied (no order demanded between them)",
    "two-sided constraint bounds: the statement fixes no direction, only order-free checks apply",
    "numerical tolerance 1e-12 on weights and their sum; zeros and signs are checked exactly",
]

TOL = 1e-12
_MANAGER = PluginManager()
FLAVOURS = ("objective", "con-upper", "con-lower", "con-eq", "con-two")


# ----------------------------------------------------------------------------
SPELLINGS = {"plain": lambda m: m, "qualified": lambda m: "default/" + m, "upper": lambda m: m.upper(),
             "qualified-mixed": lambda m: "Default/" + m.title()}


def make_filter(n: int, flavour: str, percentile: float, obj_weights: list[float] | None = None,  # noqa: PLR0913
                sort: list[int] | None = None, target: float = 0.5, spelling: str | None = None) -> tuple[Any, EnOptConfig]:  # noqa: ANN401
    config: dict[str, Any] = {
        "variables": {"initial_values": [0.0]},
        "realizations": {"weights": [1.0] * n},
    }
    if flavour == "objective":
        weights = obj_weights or [1.0]
        config["objectives"] = {"weights": weights, "realization_filters": [0] * len(weights)}
        config["realization_filters"] = [
            {"method": "cvar-objective", "options": {"sort": sort or [0], "percentile": percentile}}
        ]
    else:
        lb, ub = {
            "con-upper": (-np.inf, target),
            "con-lower": (target, np.inf),
            "con-eq": (target, target),
            "con-two": (target - 1.0, target + 1.0),
        }[flavour]
        config["nonlinear_constraints"] = {"lower_bounds": [lb], "upper_bounds": [ub], "realization_filters": [0]}
        config["realization_filters"] = [
            {"method": "cvar-constraint", "options": {"sort": 0, "percentile": percentile}}
        ]
    for spec in config["realization_filters"]:
        spec["method"] = SPELLINGS[spelling or "plain"](spec["method"])
    cfg = EnOptConfig.model_validate(config)
    flt = _MANAGER.get_plugin("realization_filter", cfg.realization_filters[0].method).create(cfg, 0)
    return flt, cfg


def badness(flavour: str, values: np.ndarray, target: float = 0.5) -> np.ndarray | None:
    """Larger = worse. None when the statement fixes no direction."""
    if flavour in ("objective", "con-upper"):
        return values
    if flavour == "con-lower":
        return -values
    if flavour == "con-eq":
        return np.abs(values - target)
    return None


def reference(p: float, m: int) -> list[Fraction]:
    pf = Fraction(p)
    return [min(max(pf - Fraction(j, m), Fraction(0)), Fraction(1, m)) for j in range(m)]


def oracle(case: dict[str, Any], weights: np.ndarray, failed: np.ndarray, bad: np.ndarray | None) -> None:
    p = case["percentile"]
    n = failed.size
    m = int(np.count_nonzero(~failed))
    check(weights.shape == (n,), "shape", f"weights shape {weights.shape}", case)
    check(bool(np.all(np.isfinite(weights))), "nonfinite", f"non-finite weights {weights}", case)
    check(bool(np.all(weights >= 0.0)), "negative-weight", f"negative weight in {weights.tolist()}", case)
    check(bool(np.all(weights[failed] == 0.0)), "failed-nonzero", f"failed realization has weight {weights}", case)
    ref = reference(p, m)
    ref_f = np.array([float(r) for r in ref])
    limit = math.ceil(Fraction(p) * m)  # number of realizations that may carry mass
    succ = np.where(~failed)[0]
    w_succ = weights[succ]
    nonzero = int(np.count_nonzero(w_succ))
    check(nonzero <= limit, "spurious-active", f"{nonzero} non-zero weights, at most {limit} allowed: {weights.tolist()}", case)
    desc = np.sort(w_succ)[::-1]
    check(bool(np.all(np.abs(desc - ref_f) <= TOL)), "staircase",
          f"sorted weights {desc.tolist()} != reference {ref_f.tolist()}", case)
    check(abs(float(weights.sum()) - p) <= TOL, "sum", f"sum {weights.sum()!r} != p {p!r}", case)
    if bad is not None:
        b = bad[succ]
        scale = 1.0 + float(np.max(np.abs(b))) if b.size else 1.0
        order = np.argsort(-b, kind="stable")
        # positional comparison where the order is unambiguous
        for i, j in itertools.combinations(range(m), 2):
            hi, lo = (i, j) if b[i] > b[j] else (j, i)
            if abs(b[i] - b[j]) > 1e-9 * scale:
                check(w_succ[hi] >= w_succ[lo] - TOL, "direction",
                      f"worse realization has smaller weight: bad={b.tolist()} w={w_succ.tolist()}", case)
        del order


def run_filter(case: dict[str, Any]) -> None:
    n = case["n"]
    flavour = case["flavour"]
    failed = np.array(case["failed"], dtype=bool)
    values = np.array(case["values"], dtype=np.float64)  # (n, K) or (n,)
    p = case["percentile"]
    obj_w = case.get("obj_weights")
    sort = case.get("sort")
    flt, cfg = make_filter(n, flavour, p, obj_w, sort, spelling=case.get("spelling"))
    run_with_filter(flt, cfg, case, values, failed)
    for step, later in enumerate(case.get("history") or [], start=2):  # the same filter object is asked again (other values, other failures)
        sub = {**case, "failed": later["failed"], "values": later["values"], "call": step}
        run_with_filter(flt, cfg, sub, np.array(later["values"], dtype=np.float64), np.array(later["failed"], dtype=bool))


def run_with_filter(flt: Any, cfg: EnOptConfig, case: dict[str, Any], values: np.ndarray, failed: np.ndarray) -> None:  # noqa: ANN401
    flavour = case["flavour"]
    n = failed.size
    if flavour == "objective":
        vals2 = values.reshape(n, -1)
        objectives = np.where(failed[:, None], np.nan, vals2)
        constraints = None
        w = cfg.objectives.weights
        sort = case.get("sort") or [0]
        if w.size > 1:
            # (an objective with weight zero has no say in the ranking, whatever its values - also infinite ones)
            key = np.array([float(sum(Fraction(float(vals2[i, s])) * Fraction(float(w[s])) for s in sort if w[s] != 0)) for i in range(n)])
        else:
            key = vals2[:, sort[0]]
        bad = badness("objective", key)
    else:
        objectives = np.where(failed[:, None], np.nan, np.zeros((n, 1)))
        constraints = np.where(failed[:, None], np.nan, values.reshape(n, 1))
        bad = badness(flavour, values.reshape(n))
    m = int(np.count_nonzero(~failed))
    try:
        weights = flt.get_realization_weights(objectives, constraints)
    except OptimizationAborted as exc:
        check(m == 0, "abort-with-successes", f"aborted although {m} realizations succeeded", case)
        check(exc.exit_code == OptimizerExitCode.TOO_FEW_REALIZATIONS, "abort-code", f"exit code {exc.exit_code}", case)
        return
    check(m > 0, "no-abort-all-failed", "all realizations failed but weights were returned", case)
    oracle(case, np.asarray(weights, dtype=np.float64), failed, bad)


def nontrivial(p: float, m: int) -> bool:
    if m < 2:  # noqa: PLR2004
        return False
    pm = Fraction(p) * m
    near = abs(pm - round(pm)) <= Fraction(np.spacing(p)) * m
    return (0 < pm < m) or near


# ----------------------------------------------------------------------------
def percentile_grid(m: int) -> list[float]:
    grid: set[float] = set()
    base = [k / (2 * m) for k in range(1, 2 * m + 1)] + [j / 20 for j in range(1, 21)]
    for v in base:
        for cand in (v, np.nextafter(v, 0.0), np.nextafter(v, 2.0)):
            c = float(cand)
            if 0.0 < c <= 1.0:
                grid.add(c)
    return sorted(grid)


def exhaustive_shard(item: dict[str, Any]) -> Collector:
    col = Collector(ID)
    n, flavour = item["n"], item["flavour"]
    masks = list(itertools.product([False, True], repeat=n))
    for mask in masks[item["part"]:: item["parts"]]:
        failed = np.array(mask, dtype=bool)
        m = int(np.count_nonzero(~failed))
        grid = percentile_grid(max(m, 1))
        for p in grid:
            flt, cfg = make_filter(n, flavour, p)
            # (objective flavour, small n) the same orderings once more with a maximised objective - negative weight, positive total -
            # ranked alone next to a second objective
            flt_max, cfg_max = make_filter(n, flavour, p, [-0.5, 3.0], [0]) if flavour == "objective" and n <= 4 else (None, None)  # noqa: PLR2004
            base_vals = np.arange(m, dtype=np.float64) * 0.25
            perms = itertools.permutations(range(m)) if m > 0 else [()]
            for perm in perms:
                values = np.full(n, 7.0)
                values[~failed] = base_vals[list(perm)] if m else []
                case = {"kind": "filter", "n": n, "flavour": flavour, "failed": list(mask),
                        "values": values.tolist(), "percentile": p}
                guard_call(col, case, lambda: run_with_filter(flt, cfg, case, values, failed))  # noqa: B023
                col.case((n, flavour, mask, perm, p), nontrivial=nontrivial(p, m),
                         classes=(flavour, f"m={m}"), sample=case)
                if flt_max is not None:
                    values2 = np.column_stack([values, 1.0 - 3.0 * values])
                    case2 = {"kind": "filter", "n": n, "flavour": flavour, "failed": list(mask), "values": values2.tolist(), "percentile": p,
                             "obj_weights": [-0.5, 3.0], "sort": [0]}
                    guard_call(col, case2, lambda: run_with_filter(flt_max, cfg_max, case2, values2, failed))  # noqa: B023
                    col.case((n, "objective-maximised", mask, perm, p), nontrivial=nontrivial(p, m),
                             classes=("objective-maximised", f"m={m}"), sample=case2)
    col.extra["exhaustive"] = True
    return col


# ----------------------------------------------------------------------------
def hypothesis_shard(item: dict[str, Any]) -> Collector:
    from hypothesis import strategies as st

    col = Collector(ID)

    @st.composite
    def cases(draw: Any) -> dict[str, Any]:  # noqa: ANN401
        n = draw(st.integers(1, 40))
        flavour = draw(st.sampled_from(FLAVOURS))
        failed = draw(st.lists(st.booleans(), min_size=n, max_size=n))
        if draw(st.integers(0, 9)) > 0 and all(failed):
            failed[draw(st.integers(0, n - 1))] = False
        m = n - sum(failed)
        value = st.one_of(st.integers(-3, 3).map(float), st.floats(-100, 100, allow_nan=False, width=64))
        kind = draw(st.integers(0, 3))
        if kind == 0 and m > 0:
            k = draw(st.integers(1, 2 * m))
            p = k / (2 * m)
            p = float(draw(st.sampled_from([p, np.nextafter(p, 0.0), np.nextafter(p, 2.0)])))
        elif kind == 1:
            p = draw(st.integers(1, 100)) / 100
        else:
            p = draw(st.floats(0.0, 1.0, exclude_min=True, allow_nan=False))
        p = min(max(p, 5e-324), 1.0)
        case: dict[str, Any] = {"kind": "filter", "n": n, "flavour": flavour, "failed": failed, "percentile": p,
                                "spelling": draw(st.sampled_from(sorted(SPELLINGS)))}
        if flavour == "objective" and draw(st.booleans()):
            k_n = draw(st.integers(2, 3))
            case["obj_weights"] = [draw(st.sampled_from([0.5, 1.0, 2.0, 3.0])) for _ in range(k_n)]
            if draw(st.booleans()):  # a negative weight (maximised objective) with a positive total
                neg = draw(st.integers(0, k_n - 1))
                case["obj_weights"][neg] = -0.5
                if sum(case["obj_weights"]) <= 0:
                    case["obj_weights"][(neg + 1) % k_n] = 3.0
            case["sort"] = sorted(draw(st.sets(st.integers(0, k_n - 1), min_size=1)))
            negative = [i for i, w_ in enumerate(case["obj_weights"]) if w_ < 0]
            if negative and draw(st.booleans()):  # the maximised objective is the only one that is ranked
                case["sort"] = negative[:1]
            case["values"] = [[draw(value) for _ in range(k_n)] for _ in range(n)]
            if draw(st.integers(0, 3)) == 0:
                # a monitored objective (weight zero) among the ranked ones, with infinite values for some realizations
                zero = draw(st.integers(0, k_n - 1))
                case["obj_weights"][zero] = 0.0
                if sum(case["obj_weights"]) <= 0:
                    case["obj_weights"][(zero + 1) % k_n] = 3.0
                case["sort"] = sorted({*case["sort"], zero, (zero + 1) % k_n})
                for row in case["values"]:
                    if draw(st.booleans()):
                        row[zero] = draw(st.sampled_from([float("inf"), float("-inf")]))
                case["infinite"] = True
        else:
            case["values"] = draw(st.lists(value, min_size=n, max_size=n))
        case["e2e"] = draw(st.booleans()) and not case.get("infinite")
        if not case["e2e"] and draw(st.booleans()):  # the filter object is used for several evaluations
            case["history"] = []
            for _ in range(draw(st.integers(1, 2))):
                later_failed = draw(st.lists(st.booleans(), min_size=n, max_size=n))
                later_values = ([[draw(value) for _ in range(len(case["values"][0]))] for _ in range(n)] if isinstance(case["values"][0], list)
                                else draw(st.lists(value, min_size=n, max_size=n)))
                case["history"].append({"failed": later_failed, "values": later_values})
        if draw(st.integers(0, 4)) == 0:  # several CVaR filters in one configuration, each ranking its own function
            n = draw(st.integers(1, 8))
            failed = draw(st.lists(st.booleans(), min_size=n, max_size=n))
            if all(failed) and draw(st.integers(0, 5)) > 0:
                failed[draw(st.integers(0, n - 1))] = False
            f_n = draw(st.integers(2, 3))
            return {"kind": "multi", "n": n, "failed": failed, "percentile": 1.0,
                    "filters": [{"flavour": draw(st.sampled_from(FLAVOURS)),
                                 "percentile": draw(st.sampled_from([0.1, 0.25, 0.5, 0.75, 0.9, 1.0, 1 / 3]))} for _ in range(f_n)],
                    "values": [[draw(value) for _ in range(f_n)] for _ in range(n)]}
        return case

    def body(case: dict[str, Any]) -> None:
        failed = np.array(case["failed"], dtype=bool)
        m = int(np.count_nonzero(~failed))
        if case["kind"] == "multi":
            run_multi(case)
            col.case(case, nontrivial=m >= 2 and any(nontrivial(f["percentile"], m) for f in case["filters"]),  # noqa: PLR2004
                     classes=("several-filters", "failures" if failed.any() else "no-failures",
                              "all-failed" if m == 0 else "some-success"))
            return
        if case.get("e2e"):
            run_e2e(case)
        else:
            run_filter(case)
        vals = np.array(case["values"], dtype=np.float64).reshape(failed.size, -1)
        ties = m - len({tuple(r) for r in vals[~failed].tolist()})
        col.case(case, nontrivial=nontrivial(case["percentile"], m),
                 classes=(case["flavour"], "e2e" if case.get("e2e") else "direct", "filter-object-reused" if case.get("history") else "single-call",
                          "ties" if ties else "no-ties", "multi-key" if "sort" in case else "single-key",
                          "all-failed" if m == 0 else "some-success"))

    run_hypothesis(col, cases(), body, seed=item["seed"], max_examples=item["examples"])
    return col


def run_e2e(case: dict[str, Any]) -> None:
    """Through EnsembleEvaluator: weights reported and value of the ranked function = tail mean."""
    from ropt.evaluator import EvaluatorResult

    n = case["n"]
    flavour = case["flavour"]
    failed = np.array(case["failed"], dtype=bool)
    values = np.array(case["values"], dtype=np.float64).reshape(n, -1)
    p = case["percentile"]
    flt, cfg = make_filter(n, flavour, p, case.get("obj_weights"), case.get("sort"), spelling=case.get("spelling"))
    cfgd = cfg.model_dump(round_trip=True)
    cfgd["realizations"]["realization_min_success"] = 0
    cfg = EnOptConfig.model_validate(cfgd)
    k_n = cfg.objectives.weights.size

    def evaluator(variables: np.ndarray, context: Any) -> EvaluatorResult:  # noqa: ANN401
        rows = variables.shape[0]
        obj = np.zeros((rows, k_n))
        con = None
        if flavour == "objective":
            obj[:, :] = values[context.realizations]
        else:
            con = values[context.realizations].reshape(rows, 1).copy()
        obj[failed[context.realizations], 0] = np.nan
        return EvaluatorResult(objectives=obj, constraints=con)

    ens = EnsembleEvaluator(cfg, None, evaluator, _MANAGER)
    m = int(np.count_nonzero(~failed))
    try:
        (res,) = ens.calculate(np.zeros(1), compute_functions=True, compute_gradients=False)
    except OptimizationAborted as exc:
        check(m == 0, "abort-with-successes", f"e2e aborted although {m} succeeded", case)
        check(exc.exit_code == OptimizerExitCode.TOO_FEW_REALIZATIONS, "abort-code", f"{exc.exit_code}", case)
        return
    check(m > 0, "no-abort-all-failed", "e2e: all failed but a result was produced", case)
    if flavour == "objective":
        rows_w = res.realizations.objective_weights
        sort = case.get("sort") or [0]
        w = cfg.objectives.weights
        key = np.array([float(sum(Fraction(float(values[i, s])) * Fraction(float(w[s])) for s in sort)) for i in range(n)]) \
            if w.size > 1 else values[:, sort[0]]
        bad = badness("objective", key)
        ranked = [(0, res.functions.objectives[0], values[:, 0])] if len(sort) == 1 and sort[0] == 0 and k_n == 1 else []
    else:
        rows_w = res.realizations.constraint_weights
        bad = badness(flavour, values.reshape(n))
        ranked = [(0, res.functions.constraints[0], values[:, 0])]
    check(rows_w is not None, "e2e-weights-missing", "no filter weights reported", case)
    weights = np.asarray(rows_w[0], dtype=np.float64)
    oracle(case, weights, failed, bad)
    for _, reported, vals in ranked:
        expect = float(np.dot(np.where(failed, 0.0, vals), weights / weights.sum()))
        check(abs(float(reported) - expect) <= 1e-9 * (1 + abs(expect)), "e2e-tail-mean",
              f"reported {reported!r} != tail mean {expect!r}", case)
        if bad is not None and m > 0:
            # independent CVaR: mean over the worst tail with rational masses
            succ = np.where(~failed)[0]
            order = succ[np.argsort(-bad[succ], kind="stable")]
            ref = reference(p, m)
            distinct = len({float(bad[i]) for i in succ}) == m
            if distinct:
                cvar = float(sum(Fraction(float(vals[i])) * r for i, r in zip(order, ref)) / Fraction(p))
                check(abs(float(reported) - cvar) <= 1e-9 * (1 + abs(cvar)), "e2e-cvar",
                      f"reported {reported!r} != CVaR_p {cvar!r}", case)


def run_multi(case: dict[str, Any]) -> None:
    """Several CVaR filters in one configuration: every filter's row satisfies the oracle on its own."""
    from ropt.evaluator import EvaluatorResult

    n = case["n"]
    failed = np.array(case["failed"], dtype=bool)
    values = np.array(case["values"], dtype=np.float64).reshape(n, -1)
    specs = case["filters"]
    obj_cols = [i for i, f in enumerate(specs) if f["flavour"] == "objective"]
    con_cols = [i for i, f in enumerate(specs) if f["flavour"] != "objective"]
    config: dict[str, Any] = {
        "variables": {"initial_values": [0.0]},
        "realizations": {"weights": [1.0] * n, "realization_min_success": 0},
        "realization_filters": [],
    }
    k_n = max(len(obj_cols), 1)
    config["objectives"] = {"weights": [1.0] * k_n, "realization_filters": [-1] * k_n}
    for pos, i in enumerate(obj_cols):
        config["objectives"]["realization_filters"][pos] = i
    lbs, ubs = [], []
    for i, f in enumerate(specs):
        if f["flavour"] == "objective":
            config["realization_filters"].append({"method": "cvar-objective", "options": {"sort": [obj_cols.index(i)], "percentile": f["percentile"]}})
        else:
            lb, ub = {"con-upper": (-np.inf, 0.5), "con-lower": (0.5, np.inf), "con-eq": (0.5, 0.5), "con-two": (-0.5, 1.5)}[f["flavour"]]
            lbs.append(lb); ubs.append(ub)  # noqa: E702
            config["realization_filters"].append({"method": "cvar-constraint", "options": {"sort": con_cols.index(i), "percentile": f["percentile"]}})
    if con_cols:
        config["nonlinear_constraints"] = {"lower_bounds": lbs, "upper_bounds": ubs, "realization_filters": con_cols}
    cfg = EnOptConfig.model_validate(config)

    def evaluator(variables: np.ndarray, context: Any) -> EvaluatorResult:  # noqa: ANN401
        rows = variables.shape[0]
        obj = np.zeros((rows, k_n))
        for pos, i in enumerate(obj_cols):
            obj[:, pos] = values[context.realizations, i]
        con = values[context.realizations][:, con_cols].copy() if con_cols else None
        obj[failed[context.realizations], 0] = np.nan
        return EvaluatorResult(objectives=obj, constraints=con)

    m = int(np.count_nonzero(~failed))
    try:
        (res,) = EnsembleEvaluator(cfg, None, evaluator, _MANAGER).calculate(np.zeros(1), compute_functions=True, compute_gradients=False)
    except OptimizationAborted as exc:
        check(m == 0, "abort-with-successes", f"several filters: aborted although {m} succeeded", case)
        check(exc.exit_code == OptimizerExitCode.TOO_FEW_REALIZATIONS, "abort-code", f"{exc.exit_code}", case)
        return
    check(m > 0, "no-abort-all-failed", "several filters: all failed but a result was produced", case)
    for i, f in enumerate(specs):
        if f["flavour"] == "objective":
            rows_w, pos = res.realizations.objective_weights, obj_cols.index(i)
        else:
            rows_w, pos = res.realizations.constraint_weights, con_cols.index(i)
        check(rows_w is not None, "e2e-weights-missing", f"filter {i}: no filter weights reported", case)
        sub = {**case, "percentile": f["percentile"], "filter": i}
        oracle(sub, np.asarray(rows_w[pos], dtype=np.float64), failed, badness(f["flavour"], values[:, i]))


# ----------------------------------------------------------------------------
def shards(tier: str, seed: int) -> list[dict[str, Any]]:
    items: list[dict[str, Any]] = []
    nmax = 5 if tier == "quick" else 7
    for n in range(1, nmax + 1):
        for flavour in FLAVOURS:
            parts = 1 if n < 5 else (4 if n < 7 else 16)  # noqa: PLR2004
            items.extend({"kind": "exh", "n": n, "flavour": flavour, "part": part, "parts": parts} for part in range(parts))
    nshard = 8 if tier == "quick" else 16
    examples = 250 if tier == "quick" else 4000
    items.extend({"kind": "hyp", "seed": seed * 1000 + i, "examples": examples} for i in range(nshard))
    items.sort(key=lambda it: -(it.get("n", 6)))
    return items


def run_shard(item: dict[str, Any]) -> Collector:
    return exhaustive_shard(item) if item["kind"] == "exh" else hypothesis_shard(item)


def replay(case: dict[str, Any]) -> None:
    if case.get("kind") == "multi":
        run_multi(case)
    elif case.get("e2e"):
        run_e2e(case)
    else:
        run_filter(case)


__all__ = ["ID", "LEVEL", "RULE", "ASSUMPTIONS", "shards", "run_shard", "replay", "Violation"]
