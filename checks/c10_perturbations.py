"""C10 - Perturbed variables honour magnitudes and boundary-type semantics."""

from __future__ import annotations

from typing import Any

import numpy as np

from harness.core import Collector, check, run_hypothesis
from harness.ropt_util import AffineEvaluator, DesignSamplerPlugin
from ropt.config.enopt import EnOptConfig
from ropt.ensemble_evaluator import EnsembleEvaluator
from ropt.plugins import PluginManager
from ropt.transforms import OptModelTransforms, VariableScaler

ID = "C10"
LEVEL = "exploration"
RULE = (
    "Hypothesis: n in 1..4, R in 1..3, P in 1..4; x inside the bounds (also a rounding error away from a bound); finite / half-infinite / infinite bounds; "
    "per-variable magnitudes, ABSOLUTE or RELATIVE (fraction of the bound range) per variable, boundary type NONE / "
    "TRUNCATE_BOTH / MIRROR_BOTH per variable; samples injected through a design sampler, from small steps to "
    "overshoots of ~50 bound widths; 1-3 samplers with a per-variable assignment (unused samplers, variables without "
    "sampler), samplers that hand out a fresh array or the very array they keep, two consecutive evaluations; optional VariableScaler (then everything is compared in the user domain); the "
    "perturbed vectors are read both from the evaluator's arguments and from GradientEvaluations.perturbed_variables. "
    "Oracle: raw = x + m*s, then NONE: raw; TRUNCATE: clip; MIRROR: raw if inside, the single reflection if that lands "
    "inside, otherwise only 'inside the bounds'. Non-trivial: >=1 entry leaves the bounds before post-processing."
)
ASSUMPTIONS = [
    "tolerance 4 ulp without transform, 1e-12 relative with a VariableScaler (rounding of the scaling itself)",
    "MIRROR_BOTH values that are still outside after one reflection are only required to end up inside the bounds",
]


def run_case(case: dict[str, Any]) -> dict[str, Any]:  # noqa: C901, PLR0912
    n, r_n, p_n = case["n"], case["R"], case["P"]
    cfg: dict[str, Any] = {
        "variables": {"initial_values": case["x"], "lower_bounds": case["lb"], "upper_bounds": case["ub"]},
        "realizations": {"weights": case.get("weights") or [1.0] * r_n},
        "gradient": {"number_of_perturbations": p_n, "perturbation_magnitudes": case["magnitudes"],
                     "perturbation_types": case["types"], "boundary_types": case["boundary"]},
        # (a sampler configured as 'shared' hands out the same samples for every realization - that of realization 0 here -, what
        # one sampler is configured to do says nothing about the others)
        "samplers": [{"method": f"design{k}/fixed", "shared": bool((case.get("shared") or [False] * 9)[k])} for k in range(case.get("S", 1))],
    }
    if case.get("assign") is not None:
        cfg["gradient"]["samplers"] = case["assign"]
    if case.get("vtypes") is not None:  # variable types (REAL / INTEGER) say nothing about perturbations
        cfg["variables"]["types"] = case["vtypes"]
    transforms = None
    scale = np.ones(n)
    if case["scales"] is not None:
        scale = np.array(case["scales"], dtype=np.float64)
        transforms = OptModelTransforms(variables=VariableScaler(scale, np.array(case["offsets"], dtype=np.float64)))
    s_n = case.get("S", 1)
    all_samples = np.array(case["samples"], dtype=np.float64).reshape(s_n, r_n, p_n, n)
    for k in range(s_n):
        if (case.get("shared") or [False] * 9)[k]:
            all_samples[k] = all_samples[k][:1]
    manager = PluginManager()
    for k in range(s_n):
        manager.add_plugin("sampler", f"design{k}", DesignSamplerPlugin([all_samples[k]], nocopy=bool(case.get("nocopy"))))
    # effective sample of every variable: the sampler it is assigned to (variables without a sampler are not perturbed)
    if case.get("assign") is None:
        samples = all_samples[0]
    else:
        samples = np.zeros((r_n, p_n, n))
        for v, k in enumerate(case["assign"]):
            if k >= 0:
                samples[..., v] = all_samples[k][..., v]
    config = EnOptConfig.model_validate(cfg, context=transforms)
    ev = AffineEvaluator(np.ones((r_n, 1, n)), np.zeros((r_n, 1)))
    ens = EnsembleEvaluator(config, transforms, ev, manager)
    x_opt = np.asarray(config.variables.initial_values)
    left = False
    for evaluation in range(2):  # the second evaluation must use the same (uncorrupted) design
        left = _one_evaluation(case, ens, ev, transforms, x_opt, samples, scale, evaluation) or left
    return {"left": left}


def moved_point(case: dict[str, Any]) -> np.ndarray:
    """A point next to x (relative distance 4e-6 resp. absolute 1e-9), moved towards the interior of the bounds."""
    x = np.array(case["x"], dtype=np.float64)
    lb, ub = np.array(case["lb"], dtype=np.float64), np.array(case["ub"], dtype=np.float64)
    delta = 4e-6 * np.abs(x) + 1e-9 if case["split"] == "near" else np.full(x.shape, 0.125)
    up = np.where(x + delta <= ub, x + delta, x - delta)
    return np.where((up >= lb) & (up <= ub), up, x)


def _one_evaluation(case: dict[str, Any], ens: Any, ev: Any, transforms: Any, x_opt: np.ndarray, samples: np.ndarray,  # noqa: ANN401, C901, PLR0912, PLR0913
                    scale: np.ndarray, evaluation: int) -> bool:
    n, r_n, p_n = case["n"], case["R"], case["P"]
    x = np.array(case["x"], dtype=np.float64)
    if case.get("split"):  # functions at x, then a gradient-only request at x itself / a point next to x / a distant point
        ens.calculate(x_opt, compute_functions=True, compute_gradients=False)
        if case["split"] != "same":
            x = moved_point(case)
        x_req = x if transforms is None else transforms.variables.to_optimizer(x)
        if case["split"] == "same":
            x_req = x_opt
        results = ens.calculate(x_req, compute_functions=False, compute_gradients=True)
        fres, gres = None, results[-1]
        last = ev.calls[-1]
        received = last["variables"][last["perturbations"] >= 0].reshape(r_n, p_n, n)
    else:
        fres, gres = ens.calculate(x_opt, compute_functions=True, compute_gradients=True)
        received = ev.calls[-1]["variables"][r_n:].reshape(r_n, p_n, n)
    reported = np.asarray(gres.evaluations.perturbed_variables)
    if transforms is not None:
        reported = transforms.variables.from_optimizer(reported)
    lb, ub = np.array(case["lb"], dtype=np.float64), np.array(case["ub"], dtype=np.float64)
    mags = np.array(case["magnitudes"], dtype=np.float64)
    m = np.where(np.array(case["types"]) == 2, mags * (ub - lb), mags)  # noqa: PLR2004
    raw = x + m * samples
    left = False
    tol_rel = 1e-12 if transforms is not None else 0.0
    for name, got in ((f"evaluation {evaluation}, evaluator rows", received), (f"evaluation {evaluation}, perturbed_variables", reported)):
        check(got.shape == (r_n, p_n, n), "shape", f"{name}: shape {got.shape}", case)
        for v in range(n):
            btype = case["boundary"][v]
            for r in range(r_n):
                for p in range(p_n):
                    val, rv = float(got[r, p, v]), float(raw[r, p, v])
                    tol = 4 * np.spacing(max(abs(rv), abs(x[v]), abs(val), 1e-300)) + tol_rel * (abs(rv) + abs(x[v]) + 1.0) * max(1.0, scale[v], 1 / scale[v])
                    inside = lb[v] <= rv <= ub[v]
                    if not inside:
                        left = True
                    if btype == 1 or inside:
                        what = "none-altered" if btype == 1 and not inside else "inside-altered"
                        check(abs(val - rv) <= tol, what,
                              f"{name}: variable {v} (boundary type {btype}) raw value {rv!r} {'inside' if inside else 'outside'} "
                              f"[{lb[v]}, {ub[v]}] became {val!r}", case)
                        continue
                    check(lb[v] - tol <= val <= ub[v] + tol, "outside-bounds",
                          f"{name}: variable {v} (boundary type {btype}) ended outside the bounds: {val!r}", case)
                    if btype == 2:  # noqa: PLR2004
                        exp = min(max(rv, lb[v]), ub[v])
                        check(abs(val - exp) <= tol, "truncate", f"{name}: variable {v}: truncated value {val!r} != {exp!r}", case)
                    else:
                        bound = lb[v] if rv < lb[v] else ub[v]
                        refl = 2 * bound - rv
                        if lb[v] <= refl <= ub[v]:
                            check(abs(val - refl) <= tol + 4 * np.spacing(abs(bound)), "mirror",
                                  f"{name}: variable {v}: raw {rv!r} mirrored at {bound!r} should be {refl!r}, got {val!r}", case)
    del fres
    return left


def hypothesis_shard(item: dict[str, Any]) -> Collector:
    from hypothesis import strategies as st

    col = Collector(ID)

    @st.composite
    def cases(draw: Any) -> dict[str, Any]:  # noqa: ANN401
        n, r_n, p_n = draw(st.integers(1, 4)), draw(st.integers(1, 3)), draw(st.integers(1, 4))
        lb, ub, x, types, mags = [], [], [], [], []
        for _ in range(n):
            kind = draw(st.sampled_from(["finite", "finite", "lower", "upper", "free"]))
            lo = draw(st.sampled_from([-2.0, 0.0, 0.5, -10.0]))
            width = draw(st.sampled_from([0.5, 1.0, 3.0, 100.0]))
            lo_v = lo if kind in ("finite", "lower") else -np.inf
            hi_v = lo + width if kind in ("finite", "upper") else np.inf
            frac = draw(st.sampled_from([0.0, 0.1, 0.5, 0.9, 1.0]))
            if kind == "finite":
                xv = lo + frac * width
            elif kind == "lower":
                xv = lo + frac * 2
            elif kind == "upper":
                xv = lo + width - frac * 2
            else:
                xv = frac
            if kind == "finite" and draw(st.integers(0, 5)) == 0:  # a rounding error inside a bound
                tiny = draw(st.sampled_from([5e-11, 3e-12, 4e-15]))
                xv = lo + tiny if draw(st.booleans()) else lo + width - tiny
            lb.append(lo_v); ub.append(hi_v); x.append(float(xv))  # noqa: E702
            rel = kind == "finite" and draw(st.booleans())
            types.append(2 if rel else 1)
            mags.append(draw(st.sampled_from([0.001, 0.01, 0.1, 0.5] if rel else [0.001, 0.05, 0.5, 2.0])))
            if draw(st.integers(0, 5)) == 0:  # a negative magnitude is a magnitude too: it mirrors the samples of that variable
                mags[-1] = -mags[-1]
        amp = draw(st.sampled_from([1.0, 1.0, 5.0, 60.0, 3000.0]))
        sample = st.one_of(st.sampled_from([-1.0, 1.0, 0.0, 0.5, -0.25]), st.floats(-1, 1, allow_nan=False, width=32).map(float))
        s_n = draw(st.integers(1, 3))
        samples = [draw(sample) * (amp if draw(st.booleans()) else 1.0) for _ in range(s_n * r_n * p_n * n)]
        scaled = draw(st.integers(0, 2)) == 0
        assign = None
        if s_n > 1 or draw(st.booleans()):  # per-variable assignment; samplers may stay unused, variables may have no sampler
            assign = [draw(st.integers(-1, s_n - 1)) for _ in range(n)]
            if all(a < 0 for a in assign):
                assign[0] = s_n - 1
        weights = None
        if r_n > 1 and draw(st.integers(0, 2)) == 0:  # realizations without weight are perturbed like the others
            weights = [draw(st.sampled_from([0.0, 0.0, 1.0, 2.0])) for _ in range(r_n)]
            if not any(weights):
                weights[0] = 1.0
        return {"weights": weights, "vtypes": [draw(st.sampled_from([1, 2])) for _ in range(n)] if draw(st.integers(0, 3)) == 0 else None,
                "split": draw(st.sampled_from([None, None, "same", "near", "far"])), "shared": [draw(st.integers(0, 2)) == 0 for _ in range(s_n)], "S": s_n, "assign": assign, "nocopy": draw(st.booleans()), "n": n, "R": r_n, "P": p_n, "x": x, "lb": lb, "ub": ub, "types": types, "magnitudes": mags,
                "boundary": [draw(st.integers(1, 3)) for _ in range(n)], "samples": samples,
                "scales": [draw(st.sampled_from([0.5, 2.0, 10.0, 3.0])) for _ in range(n)] if scaled else None,
                "offsets": [draw(st.sampled_from([0.0, 1.0, -2.5])) for _ in range(n)] if scaled else None}

    def body(case: dict[str, Any]) -> None:
        info = run_case(case)
        col.case(case, nontrivial=info["left"], classes=(
            "left-bounds" if info["left"] else "stayed-inside", "scaled" if case["scales"] else "unscaled",
            f"samplers={case['S']}", "unused-sampler" if case["assign"] and len(set(a for a in case["assign"] if a >= 0)) < case["S"] else "all-samplers-used",
            "sampler-keeps-array" if case["nocopy"] else "fresh-arrays", f"request={case['split'] or 'combined'}",
            *(f"boundary={b}" for b in sorted(set(case["boundary"]))), "relative" if 2 in case["types"] else "absolute-only"))  # noqa: PLR2004

    run_hypothesis(col, cases(), body, seed=item["seed"], max_examples=item["examples"])
    return col


def shards(tier: str, seed: int) -> list[dict[str, Any]]:
    nshard = 8 if tier == "quick" else 16
    examples = 200 if tier == "quick" else 4000
    return [{"seed": seed * 1000 + i, "examples": examples} for i in range(nshard)]


def run_shard(item: dict[str, Any]) -> Collector:
    return hypothesis_shard(item)


def replay(case: dict[str, Any]) -> None:
    run_case(case)
