"""C17 - Samplers obey the perturbation-sample contract, including QMC point integrity."""

from __future__ import annotations

from typing import Any

import numpy as np
from numpy.random import default_rng
from scipy.stats import qmc

from harness.core import Collector, check, guard_call, run_hypothesis
from ropt.config.enopt import EnOptConfig
from ropt.ensemble_evaluator import EnsembleEvaluator
from ropt.evaluator import EvaluatorResult
from ropt.plugins import PluginManager

ID = "C17"
LEVEL = "exploration"
RULE = (
    "Hypothesis over all six built-in methods (norm, uniform, truncnorm, sobol, halton, lhs), R,P,n in 1..6, "
    "variable masks, 1-3 samplers (method names plain, 'scipy/<name>' or upper case) assigned to disjoint variable sets (variables may have no sampler) or not assigned at all, realization weights with zeros, shared on/off, seeds, 1-3 consecutive calls; "
    "'direct' cases call plugin.create(...).generate_samples(), 'e2e' cases read perturbed_variables - variables from "
    "EnsembleEvaluator (x=0, magnitude 1, boundary NONE). Oracles: shape, exact zeros in unhandled columns, shared/"
    "per-realization, range [-1,1], QMC differential (row multiset == points of an identically seeded scipy.stats.qmc "
    "engine scaled to [-1,1], continued over consecutive calls), LHS strata. "
    "Non-trivial: a QMC method with >=2 handled variables and >=2 points per call."
)
ASSUMPTIONS = [
    "scipy.stats.qmc engines are the reference for the point sets (trusted)",
    "uniform/truncnorm are also generated with explicit range options next to default-option samplers; QMC methods with defaults only",
    "'drawn per realization' is checked as: realizations are not all identical when R>=2 (probability-zero event otherwise)",
]

QMC = {"sobol": qmc.Sobol, "halton": qmc.Halton, "lhs": qmc.LatinHypercube}
STATS = ("norm", "uniform", "truncnorm")
BOUNDED = ("uniform", "truncnorm", "sobol", "halton", "lhs")
_MANAGER = PluginManager()


def build_config(case: dict[str, Any]) -> EnOptConfig:
    n = case["n"]
    cfg: dict[str, Any] = {
        "variables": {"initial_values": [0.0] * n},
        "realizations": {"weights": case.get("weights") or [1.0] * case["R"]},
        "gradient": {
            "number_of_perturbations": case["P"],
            "perturbation_magnitudes": 1.0,
            "boundary_types": 1,
            "seed": case["seed"],
            "merge_realizations": bool(case.get("merge")),  # (how the gradient is estimated says nothing about what 'shared' means)
        },
        "samplers": [{"method": {"plain": s["method"], "qualified": "scipy/" + s["method"], "upper": s["method"].upper()}[s.get("spelling", "plain")],
                      "shared": s["shared"], "options": s.get("options") or {}} for s in case["samplers"]],
    }
    if case.get("mask") is not None:
        cfg["variables"]["mask"] = case["mask"]
    if case.get("assign") is not None:
        cfg["gradient"]["samplers"] = case["assign"]
    return EnOptConfig.model_validate(cfg)


def handled_mask(case: dict[str, Any], idx: int) -> np.ndarray:
    n = case["n"]
    mask = np.ones(n, dtype=bool) if case.get("mask") is None else np.array(case["mask"], dtype=bool)
    if case.get("assign") is not None:
        mask = mask & (np.array(case["assign"]) == idx)
    elif idx != 0:
        mask = np.zeros(n, dtype=bool)
    return mask


def sorted_rows(a: np.ndarray) -> np.ndarray:
    a = a.reshape(-1, a.shape[-1])
    return a[np.lexsort(a.T[::-1])] if a.size else a


def check_samples(case: dict[str, Any], spec: dict[str, Any], mask: np.ndarray, calls: list[np.ndarray],
                  reference_rng_seed: int | None) -> None:
    r_n, p_n, n = case["R"], case["P"], case["n"]
    method, shared = spec["method"], spec["shared"]
    d = int(mask.sum())
    engine = None
    if method in QMC and reference_rng_seed is not None and d > 0:
        engine = QMC[method](d, seed=default_rng(reference_rng_seed))
    for call_idx, samples in enumerate(calls):
        check(samples.shape == (r_n, p_n, n), "shape", f"{method}: shape {samples.shape} != {(r_n, p_n, n)}", case)
        check(bool(np.all(np.isfinite(samples))), "nonfinite", f"{method}: non-finite samples", case)
        check(bool(np.all(samples[..., ~mask] == 0.0)), "unhandled-nonzero",
              f"{method}: non-zero entries for variables not handled by this sampler", case)
        if d == 0:
            continue
        h = samples[..., mask]
        if shared:
            check(bool(np.all(h == h[:1])), "shared-differs", f"{method}: shared sampler gives different realizations", case)
        elif r_n >= 2:  # noqa: PLR2004
            check(not bool(np.all(h == h[:1])), "not-per-realization",
                  f"{method}: all realizations received identical perturbations without shared", case)
            blank = [r for r in range(r_n) if not np.any(h[r])]
            check(not blank, "not-per-realization", f"{method}: realizations {blank} received no perturbations at all "
                  f"(realization weights {case.get('weights')})", case)
        if method in BOUNDED:
            opts = spec.get("options") or {}
            limit = 1.0
            if method == "uniform" and opts:
                limit = max(abs(opts["loc"]), abs(opts["loc"] + opts["scale"]))
            elif method == "truncnorm" and opts:
                limit = max(abs(opts["a"]), abs(opts["b"]))
            check(bool(np.all(np.abs(h) <= limit)), "out-of-range",
                  f"{method} (options {opts}): sample outside [-{limit}, {limit}]: {np.abs(h).max()}", case)
        points = h[0] if shared else h.reshape(-1, d)
        n_points = points.shape[0]
        if method == "lhs":
            strata = np.floor((points + 1.0) / 2.0 * n_points).astype(int)
            strata = np.clip(strata, 0, n_points - 1)
            for col in range(d):
                check(len(set(strata[:, col].tolist())) == n_points, "lhs-strata",
                      f"lhs: call {call_idx}, variable {col}: {n_points} points occupy only "
                      f"{len(set(strata[:, col].tolist()))} strata", case)
        if engine is not None:
            import warnings

            with warnings.catch_warnings():
                warnings.simplefilter("ignore")
                ref = qmc.scale(engine.random(n_points), np.repeat(-1.0, d), np.repeat(1.0, d))
            check(bool(np.array_equal(sorted_rows(points), sorted_rows(ref))), "qmc-point-integrity",
                  f"{method}: call {call_idx}: generated vectors are not the points of the underlying sequence", case)


def run_direct(case: dict[str, Any]) -> None:
    cfg = build_config(case)
    for idx, spec in enumerate(case["samplers"]):
        if idx and case.get("assign") is None:
            continue  # without an assignment only the first sampler perturbs anything
        mask = handled_mask(case, idx)
        plugin = _MANAGER.get_plugin("sampler", cfg.samplers[idx].method)
        use_mask = None if (case.get("mask") is None and case.get("assign") is None) else mask
        sampler = plugin.create(cfg, idx, use_mask, default_rng(case["seed"]))
        calls = [np.asarray(sampler.generate_samples()) for _ in range(case["calls"])]
        check_samples(case, spec, mask, calls, case["seed"])


def run_e2e(case: dict[str, Any]) -> None:
    cfg = build_config(case)
    n, r_n, p_n = case["n"], case["R"], case["P"]

    def evaluator(variables: np.ndarray, context: Any) -> EvaluatorResult:  # noqa: ANN401, ARG001
        return EvaluatorResult(objectives=variables.sum(axis=1, keepdims=True))

    ens = EnsembleEvaluator(cfg, None, evaluator, _MANAGER)
    x = np.zeros(n)
    diffs = []
    for _ in range(case["calls"]):
        _, grad = ens.calculate(x, compute_functions=True, compute_gradients=True)
        diffs.append(np.asarray(grad.evaluations.perturbed_variables) - x)
    free = np.ones(n, dtype=bool) if case.get("mask") is None else np.array(case["mask"], dtype=bool)
    for idx, spec in enumerate(case["samplers"]):
        mask = handled_mask(case, idx)
        if not mask.any():
            continue
        # restrict to this sampler's columns: other samplers contribute exact zeros there
        calls = [np.where(mask, d, 0.0) for d in diffs]
        single = len(case["samplers"]) == 1  # one generator is shared by all samplers: reference only for one
        check_samples(case, spec, mask, calls, case["seed"] if single else None)
    for d in diffs:
        check(d.shape == (r_n, p_n, n), "shape", f"perturbed_variables shape {d.shape}", case)
        check(bool(np.all(d[..., ~free] == 0.0)), "unhandled-nonzero", "fixed variable perturbed", case)
        unassigned = free.copy()
        for idx in range(len(case["samplers"])):
            unassigned &= ~handled_mask(case, idx)
        check(bool(np.all(d[..., unassigned] == 0.0)), "unhandled-nonzero", "variable without sampler perturbed", case)


def replay(case: dict[str, Any]) -> None:
    if case["kind"] == "direct":
        run_direct(case)
    else:
        run_e2e(case)


def hypothesis_shard(item: dict[str, Any]) -> Collector:
    from hypothesis import strategies as st

    col = Collector(ID)
    methods = st.sampled_from(["norm", "uniform", "truncnorm", "sobol", "halton", "lhs", "sobol", "halton", "lhs"])

    @st.composite
    def cases(draw: Any) -> dict[str, Any]:  # noqa: ANN401
        n = draw(st.integers(1, 6))
        case: dict[str, Any] = {
            "kind": draw(st.sampled_from(["direct", "direct", "e2e"])),
            "n": n, "R": draw(st.integers(1, 6)), "P": draw(st.integers(1, 6)),
            "seed": draw(st.integers(0, 2**31 - 1)), "calls": draw(st.integers(1, 3)),
        }
        s_n = draw(st.integers(1, 3))
        case["samplers"] = [{"method": draw(methods), "shared": draw(st.booleans()), "spelling": draw(st.sampled_from(["plain", "plain", "qualified", "upper"]))}
                            for _ in range(s_n)]
        for spec in case["samplers"]:  # explicit range options next to default ones
            if spec["method"] == "uniform" and draw(st.integers(0, 2)) == 0:
                spec["options"] = {"loc": -4.0, "scale": 8.0}
            elif spec["method"] == "truncnorm" and draw(st.integers(0, 2)) == 0:
                spec["options"] = {"a": -3.0, "b": 3.0}
        mask = None
        if draw(st.booleans()):
            mask = draw(st.lists(st.booleans(), min_size=n, max_size=n))
            if not any(mask):
                mask[draw(st.integers(0, n - 1))] = True
        case["mask"] = mask
        if (s_n > 1 and draw(st.integers(0, 3)) > 0) or (s_n == 1 and draw(st.booleans())):
            assign = [draw(st.integers(-1, s_n - 1)) for _ in range(n)]
            free = [i for i in range(n) if mask is None or mask[i]]
            if all(assign[i] < 0 for i in free):
                assign[free[0]] = 0
            case["assign"] = assign
        else:
            case["assign"] = None
        case["merge"] = draw(st.integers(0, 2)) == 0
        case["weights"] = None
        if draw(st.integers(0, 2)) == 0:
            case["weights"] = [draw(st.sampled_from([0.0, 0.0, 1.0, 2.5])) for _ in range(case["R"])]
            if not any(case["weights"]):
                case["weights"][draw(st.integers(0, case["R"] - 1))] = 1.0
        return case

    def body(case: dict[str, Any]) -> None:
        replay(case)
        nontrivial = False
        classes = [case["kind"], f"samplers={len(case['samplers'])}", "masked" if case["mask"] else "unmasked",
                   "merged-gradient" if case.get("merge") else "per-realization-gradient", "zero-weight-realizations" if case["weights"] and 0.0 in case["weights"] else "positive-weights",
                   "variables-without-sampler" if case["assign"] and -1 in case["assign"] else "all-assigned",
                   "several-samplers-no-assignment" if case["assign"] is None and len(case["samplers"]) > 1 else "assignment-or-single"]
        for idx, spec in enumerate(case["samplers"]):
            d = int(handled_mask(case, idx).sum())
            points = case["P"] * (1 if spec["shared"] else case["R"])
            if d:
                classes.append(spec["method"])
                classes.append("shared" if spec["shared"] else "per-realization")
            if spec["method"] in QMC and d >= 2 and points >= 2:  # noqa: PLR2004
                nontrivial = True
        col.case(case, nontrivial=nontrivial, classes=classes)

    run_hypothesis(col, cases(), body, seed=item["seed"], max_examples=item["examples"])
    return col


def large_shard(item: dict[str, Any]) -> Collector:
    """Ensembles with more than a thousand (and more than 2**12) points per draw: the whole draw is one QMC sample."""
    col = Collector(ID)
    seed = item["seed"]
    for method in ("lhs", "sobol", "halton", "norm"):
        for r_n, p_n, shared in ((3, 400, False), (30, 40, False), (2, 1100, True), (5, 900, False)):
            case = {"kind": "direct" if (r_n + p_n) % 2 else "e2e", "n": 3, "R": r_n, "P": p_n, "seed": seed * 7 + r_n, "calls": 2,
                    "samplers": [{"method": method, "shared": shared, "spelling": "plain"}], "mask": [True, False, True] if shared else None,
                    "assign": None, "weights": None, "merge": False}
            guard_call(col, case, lambda case=case: replay(case))
            col.case((method, r_n, p_n, shared), nontrivial=True, classes=("large-draw", method, "shared" if shared else "per-realization"),
                     sample=case)
    return col


def shards(tier: str, seed: int) -> list[dict[str, Any]]:
    nshard = 8 if tier == "quick" else 16
    examples = 250 if tier == "quick" else 4000
    return [*({"seed": seed * 1000 + i, "examples": examples} for i in range(nshard)), {"kind": "large", "seed": seed}]


def run_shard(item: dict[str, Any]) -> Collector:
    return large_shard(item) if item.get("kind") == "large" else hypothesis_shard(item)
