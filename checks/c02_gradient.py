"""C02 - Stochastic gradient is exact on affine ensembles and zero on fixed variables."""

from __future__ import annotations

from typing import Any

import numpy as np

from harness.core import Collector, Violation, check, run_hypothesis
from harness.ropt_util import AffineEvaluator, DesignSamplerPlugin
from ropt.config.enopt import EnOptConfig
from ropt.ensemble_evaluator import EnsembleEvaluator
from ropt.exceptions import OptimizationAborted
from ropt.plugins import PluginManager
from ropt.transforms import OptModelTransforms, VariableScaler

ID = "C02"
LEVEL = "exploration"
RULE = (
    "Hypothesis: affine ensembles f_rk(x)=a_rk.x+b_rk in the user domain, R in 1..4, n in 1..4, P in 1..6, K in 1..2, "
    "C in 0..1; weights incl. zeros and (mean, unfiltered) a negative entry with positive sum; variable masks; built-in samplers (all six methods, shared or not) and an injected "
    "deterministic design sampler (scaled identity, random orthogonal, degenerate); magnitudes in [1e-3,1]; a quarter of the cases with the whole problem (variables, bounds, magnitudes, function offsets) expressed in units of 1e-9..1e6; bounds and "
    "boundary types that may clip/mirror; failed perturbations/realizations and both success thresholds; sort/cvar "
    "filters; mean and stddev; merge_realizations; optional VariableScaler; combined and split evaluation. Oracle: exact "
    "gradient (mean: weighted slopes; stddev: chain rule) whenever the *reported* perturbation-difference matrix of every "
    "contributing realization satisfies the conditioning predicate of the property; fixed entries == 0.0 always. "
    "Non-trivial: the predicate holds and (R>=2 or a failure or a mask or a bound was hit)."
)
ASSUMPTIONS = [
    "failed-realization flags and filter weights are taken from the reported results (decided by C03/C04/C05)",
    "tolerance |g - g_exact| <= 1e-6 * (1 + max|slope|) per entry; fixed entries exactly 0.0",
    "stddev cases with sigma < 1e-6 are counted as trivial (derivative not defined)",
    "difference matrices whose smallest singular value is below 1e-6 (times the unit of the case) are treated as missing the conditioning bound "
    "(perturbations of rounding-error size cannot be exact in floating point)",
    "merged mode is compared when realizations share perturbations (identical difference matrices) or have identical slopes",
]

TOL = 1e-6
BUILTIN = ["norm", "uniform", "truncnorm", "sobol", "halton", "lhs"]


def build(case: dict[str, Any]) -> tuple[EnOptConfig, AffineEvaluator, PluginManager, OptModelTransforms | None]:
    n, r_n, k_n, c_n, p_n = case["n"], case["R"], case["K"], case["C"], case["P"]
    cfg: dict[str, Any] = {
        "variables": {"initial_values": case["x"], "lower_bounds": case["lb"], "upper_bounds": case["ub"]},
        "realizations": {"weights": case["weights"], "realization_min_success": case["rmin"]},
        "objectives": {"weights": case["obj_weights"]},
        "gradient": {
            "number_of_perturbations": p_n,
            "perturbation_min_success": case["pmin"],
            "perturbation_magnitudes": case["magnitudes"],
            "boundary_types": case["boundary"],
            "merge_realizations": case["merge"],
            "seed": case["seed"],
        },
        "function_estimators": [{"method": m} for m in case["estimators"]],
        "realization_filters": case["filters"],
    }
    if case["mask"] is not None:
        cfg["variables"]["mask"] = case["mask"]
    if len(case["estimators"]) > 1:
        cfg["objectives"]["function_estimators"] = case["obj_est"]
    if case["filters"]:
        cfg["objectives"]["realization_filters"] = case["obj_filt"]
        if c_n and case.get("con_filt") is not None:
            cfg.setdefault("_con_filt", case["con_filt"])
    con_filt = cfg.pop("_con_filt", None)
    if c_n:
        cfg["nonlinear_constraints"] = {"lower_bounds": [0.0] * c_n, "upper_bounds": [np.inf] * c_n}
        if len(case["estimators"]) > 1:
            cfg["nonlinear_constraints"]["function_estimators"] = case["con_est"]
        if con_filt is not None:
            cfg["nonlinear_constraints"]["realization_filters"] = con_filt
    manager = PluginManager()
    if case["sampler"]["kind"] == "design":
        design = np.array(case["sampler"]["samples"], dtype=np.float64).reshape(-1, p_n, n)
        if design.shape[0] == 1:
            design = np.repeat(design, r_n, axis=0)
        manager.add_plugin("sampler", "design", DesignSamplerPlugin([design]))
        cfg["samplers"] = [{"method": "design/fixed"}]
    else:
        cfg["samplers"] = [{"method": case["sampler"]["method"], "shared": case["sampler"]["shared"]}]
        if case["sampler"].get("assign"):  # explicit per-variable assignment (all to sampler 0), also for fixed variables
            cfg["gradient"]["samplers"] = [0] * n
        if case["sampler"].get("second"):  # two different built-in samplers on alternating variables
            cfg["samplers"].append({"method": case["sampler"]["second"], "shared": not case["sampler"]["shared"]})
            cfg["gradient"]["samplers"] = [i % 2 for i in range(n)]
    transforms = None
    if case["scales"] is not None:
        transforms = OptModelTransforms(variables=VariableScaler(np.array(case["scales"]), np.array(case["offsets_v"])))
    config = EnOptConfig.model_validate(cfg, context=transforms)
    a = np.array(case["slopes"], dtype=np.float64).reshape(r_n, k_n + c_n, n)
    b = np.array(case["offsets"], dtype=np.float64).reshape(r_n, k_n + c_n)
    fail = {(int(r), int(p)): [("obj", int(col)) if col < k_n else ("con", int(col - k_n))] for r, p, col in case["nans"]}
    ev = AffineEvaluator(a[:, :k_n], b[:, :k_n], a[:, k_n:] if c_n else None, b[:, k_n:] if c_n else None, fail=fail)
    return config, ev, manager, transforms


def well_conditioned(d: np.ndarray, unit: float = 1.0) -> bool:
    if d.shape[0] < d.shape[1] or d.shape[1] == 0:
        return False
    s = np.linalg.svd(d, compute_uv=False)
    s2 = s**2
    # (differences of the order of the rounding error, e.g. a perturbation mirrored back onto x, carry no information)
    return bool(s2.sum() > 0 and s2.min() >= 0.011 * s2.sum() and s.min() >= 1e-6 * unit)  # noqa: PLR2004


def run_case(case: dict[str, Any]) -> dict[str, Any]:  # noqa: C901, PLR0912, PLR0915
    info = {"compared": 0, "hit_bound": False, "aborted": False, "no_gradient": False}
    try:
        cfg, ev, manager, transforms = build(case)
    except Exception as exc:  # noqa: BLE001
        if type(exc).__name__ in ("ValidationError", "ConfigError"):
            info["rejected"] = True
            return info
        raise
    n, r_n, k_n, c_n = case["n"], case["R"], case["K"], case["C"]
    try:
        ens = EnsembleEvaluator(cfg, transforms, ev, manager)
    except Exception as exc:  # noqa: BLE001
        if type(exc).__name__ == "ConfigError":
            info["rejected"] = True
            return info
        raise
    x = np.asarray(cfg.variables.initial_values, dtype=np.float64)
    mask0 = np.ones(n, dtype=bool) if cfg.variables.mask is None else np.asarray(cfg.variables.mask)
    try:
        if case["split"] in (True, "same"):
            (fres,) = ens.calculate(x, compute_functions=True, compute_gradients=False)
            (gres,) = ens.calculate(x, compute_functions=False, compute_gradients=True)
        elif case["split"] in ("near", "far", "fixed-far"):
            # history: functions at a neighbouring point first, then a gradient-only request at x
            shift = (1e-6 if case["split"] == "near" else 0.3) * (1.0 + np.abs(x))
            x0 = np.where(mask0, x + shift, x)
            if case["split"] == "fixed-far":  # the two points differ in the fixed variables only (if there are any)
                x0 = np.where(mask0, x, x + shift) if not mask0.all() else x + shift
            (fres,) = ens.calculate(x0, compute_functions=True, compute_gradients=False)
            both = ens.calculate(x, compute_functions=False, compute_gradients=True)
            gres = both[-1]
            if len(both) > 1:
                fres = both[0]
            # else: the gradient was computed from function values cached at x0; the comparison below decides
        else:
            fres, gres = ens.calculate(x, compute_functions=True, compute_gradients=True)
    except OptimizationAborted:
        info["aborted"] = True
        return info
    mask = np.ones(n, dtype=bool) if cfg.variables.mask is None else np.asarray(cfg.variables.mask)
    if gres.gradients is None:
        info["no_gradient"] = True
        return info
    grads = gres.gradients
    g_obj = np.asarray(grads.objectives)
    g_con = None if grads.constraints is None else np.asarray(grads.constraints)
    g_w = np.asarray(grads.weighted_objective)
    check(g_obj.shape == (k_n, n) and g_w.shape == (n,), "shape", f"gradient shapes {g_obj.shape} {g_w.shape}", case)
    for arr in (g_obj, g_w) + (() if g_con is None else (g_con,)):
        check(bool(np.all(arr[..., ~mask] == 0.0)), "fixed-nonzero", f"fixed variable has non-zero gradient entry: {arr.tolist()}", case)
    # weighted objective gradient = sum_k w_k g_k
    obj_w = np.asarray(cfg.objectives.weights)
    if np.all(np.isfinite(g_obj)):
        exp_w = (obj_w[:, None] * g_obj).sum(axis=0)
        check(bool(np.all(np.abs(g_w - exp_w) <= 1e-9 * (1 + np.abs(exp_w)))), "weighted-gradient",
              f"weighted objective gradient {g_w.tolist()} != sum w_k g_k {exp_w.tolist()}", case)

    pv = np.asarray(gres.evaluations.perturbed_variables)
    check(bool(np.all(pv[..., ~mask] == x[~mask])), "fixed-perturbed", "fixed variables were perturbed", case)
    d_all = (pv - x)[..., mask]  # (R, P, n_free)
    lb, ub = np.asarray(cfg.variables.lower_bounds), np.asarray(cfg.variables.upper_bounds)
    info["hit_bound"] = bool(np.any(pv <= lb) or np.any(pv >= ub))
    failed = np.asarray(gres.realizations.failed_realizations)
    configured = np.asarray(cfg.realizations.weights)
    scale = np.ones(n) if case["scales"] is None else np.broadcast_to(np.array(case["scales"], dtype=np.float64), (n,))
    a = np.array(case["slopes"], dtype=np.float64).reshape(r_n, k_n + c_n, n) * scale  # optimizer-domain slopes
    p_obj = np.asarray(gres.evaluations.perturbed_objectives)  # (R,P,K)
    f_obj = np.asarray(fres.evaluations.objectives)
    f_con = None if fres.evaluations.constraints is None else np.asarray(fres.evaluations.constraints)
    succ = ~np.isnan(p_obj[..., 0])  # (R,P)

    for kind, count, reported, rows in (("obj", k_n, g_obj, gres.realizations.objective_weights),
                                        ("con", c_n, g_con, gres.realizations.constraint_weights)):
        for idx in range(count):
            col = idx if kind == "obj" else k_n + idx
            w = configured if rows is None else np.asarray(rows[idx], dtype=np.float64)
            w = np.where(failed, 0.0, w)
            if not np.any(w > 0):
                continue
            w = w / w.sum()
            contrib = [r for r in range(r_n) if w[r] != 0]  # (a negative weight is a weight: only the sum has to be positive)
            method = case["estimators"][0] if len(case["estimators"]) == 1 else \
                case["estimators"][(case["obj_est"] if kind == "obj" else case["con_est"])[idx]]
            slopes = a[:, col][:, mask]  # (R, n_free)
            got = np.asarray(reported[idx])[mask]
            amax = 1.0 + float(np.max(np.abs(slopes)))
            if case["merge"]:
                rows_d = np.concatenate([d_all[r][succ[r]] for r in contrib]) if contrib else np.zeros((0, d_all.shape[-1]))
                if not well_conditioned(rows_d, case.get("unit", 1.0)):
                    continue
                shared = all(np.array_equal(d_all[r], d_all[contrib[0]]) and np.array_equal(succ[r], succ[contrib[0]]) for r in contrib)
                identical = all(np.array_equal(slopes[r], slopes[contrib[0]]) for r in contrib)
                if not (shared or identical):
                    continue
                exact = (w[:, None] * slopes).sum(axis=0)
                info["compared"] += 1
                if np.all(np.abs(got - exact) <= TOL * amax):
                    continue
                # model of the known defect: right-hand sides multiplied by the weights, left-hand sides not
                rhs = np.concatenate([w[r] * (d_all[r][succ[r]] @ slopes[r]) for r in contrib])
                g_def = np.linalg.lstsq(rows_d, rhs, rcond=None)[0]
                if np.all(np.abs(got - g_def) <= TOL * amax):
                    raise Violation("merged-rhs-only-weighting",
                                    f"merged gradient {got.tolist()} != exact {exact.tolist()} (equals the solution with only the "
                                    "right-hand sides multiplied by the weights)", case)
                raise Violation("merged-gradient", f"merged gradient {got.tolist()} != exact {exact.tolist()}", case)
            if not all(well_conditioned(d_all[r][succ[r]], case.get("unit", 1.0)) for r in contrib):
                continue
            if method == "mean":
                exact = (w[:, None] * slopes).sum(axis=0)
            else:
                f = (f_obj[:, idx] if kind == "obj" else f_con[:, idx])
                f = np.where(w > 0, f, 0.0)
                npos = int(np.count_nonzero(w > 0))
                if npos < 2:  # noqa: PLR2004
                    continue
                m = float(np.sum(w * f))
                var = npos / (npos - 1) * float(np.sum(w * (f - m) ** 2))
                sigma = np.sqrt(var)
                if sigma < 1e-6:  # noqa: PLR2004  (absolute: ropt itself reports a zero gradient for a spread below 1e-8)
                    continue
                abar = (w[:, None] * slopes).sum(axis=0)
                exact = (npos / (npos - 1)) / sigma * (w[:, None] * (f - m)[:, None] * (slopes - abar)).sum(axis=0)
                amax = amax * (1.0 + float(np.max(np.abs(f - m))) / sigma)
            info["compared"] += 1
            check(bool(np.all(np.abs(got - exact) <= TOL * amax)), f"gradient-{method}",
                  f"{kind} {idx} ({method}): reported gradient {got.tolist()} != exact {exact.tolist()} (weights {w.tolist()})", case)
    return info


def hypothesis_shard(item: dict[str, Any]) -> Collector:
    from hypothesis import strategies as st

    col = Collector(ID)
    weight = st.sampled_from([0.0, 1.0, 1.0, 2.0, 3.0, 0.4])
    val = st.one_of(st.integers(-5, 5).map(float), st.floats(-5, 5, allow_nan=False, width=32).map(float))

    @st.composite
    def cases(draw: Any) -> dict[str, Any]:  # noqa: ANN401
        n, r_n, p_n = draw(st.integers(1, 4)), draw(st.integers(1, 4)), draw(st.integers(1, 6))
        k_n, c_n = draw(st.integers(1, 2)), draw(st.integers(0, 1))
        merge = draw(st.integers(0, 3)) == 0
        weights = [draw(weight) for _ in range(r_n)]
        if sum(weights) == 0:
            weights[0] = 1.0
        estimators = ["mean"] if merge else draw(st.sampled_from([["mean"], ["mean"], ["stddev"], ["mean", "stddev"]]))
        mask = None
        if n > 1 and draw(st.booleans()):
            mask = draw(st.lists(st.booleans(), min_size=n, max_size=n))
            if not any(mask):
                mask[0] = True
        bounded = draw(st.booleans())
        x = [draw(st.sampled_from([0.0, 0.5, 1.0, -1.0, 0.25])) for _ in range(n)]
        if bounded:
            lb = [xi - draw(st.sampled_from([0.0, 0.05, 0.5, 5.0])) if draw(st.booleans()) else -np.inf for xi in x]
            ub = [xi + draw(st.sampled_from([0.0, 0.05, 0.5, 5.0])) if draw(st.booleans()) else np.inf for xi in x]
        else:
            lb, ub = [-np.inf] * n, [np.inf] * n
        skind = draw(st.sampled_from(["design", "design", "builtin"]))
        if skind == "design":
            shape = draw(st.sampled_from(["identity", "orthogonal", "random", "degenerate"]))
            shared = draw(st.booleans()) or merge
            blocks = []
            for _ in range(1 if shared else r_n):
                if shape == "identity":
                    m = np.zeros((p_n, n))
                    for p in range(p_n):
                        m[p, p % n] = 1.0 if (p // n) % 2 == 0 else -1.0
                elif shape == "orthogonal":
                    q = np.linalg.qr(np.array([[draw(val) for _ in range(n)] for _ in range(n)]) + 3 * np.eye(n))[0]
                    m = np.array([q[p % n] * (1.0 if (p // n) % 2 == 0 else -0.5) for p in range(p_n)])
                elif shape == "random":
                    m = np.array([[draw(st.sampled_from([-1.0, -0.5, 0.5, 1.0, 0.0, 2.0])) for _ in range(n)] for _ in range(p_n)])
                else:
                    row = [draw(st.sampled_from([-1.0, 1.0, 0.5])) for _ in range(n)]
                    m = np.array([[v * (1 + 0.5 * p) for v in row] for p in range(p_n)])
                blocks.append(m.tolist())
            sampler: dict[str, Any] = {"kind": "design", "shape": shape, "samples": blocks}
        else:
            sampler = {"kind": "builtin", "method": draw(st.sampled_from(BUILTIN)), "shared": draw(st.booleans()),
                       "assign": draw(st.booleans()), "second": draw(st.sampled_from([None, None, *BUILTIN])) if n > 1 else None}
        f_n = 0 if merge else draw(st.sampled_from([0, 0, 1]))
        filters = []
        if f_n:
            if draw(st.booleans()):
                first = draw(st.integers(0, r_n - 1))
                filters.append({"method": "sort-objective", "options": {"sort": [0], "first": first, "last": draw(st.integers(first, r_n - 1))}})
            else:
                filters.append({"method": "cvar-objective", "options": {"sort": [0], "percentile": draw(st.sampled_from([0.5, 0.75, 1.0]))}})
        scaled = draw(st.integers(0, 2)) == 0
        case: dict[str, Any] = {
            "n": n, "R": r_n, "P": p_n, "K": k_n, "C": c_n, "merge": merge, "weights": weights,
            # (an objective with weight zero is monitored only: its reported gradient is estimated like any other)
            "obj_weights": [draw(st.sampled_from([1.0, 2.0, 0.5]))] + [draw(st.sampled_from([1.0, 2.0, 0.5, 0.0])) for _ in range(k_n - 1)],
            "estimators": estimators, "obj_est": [draw(st.integers(0, len(estimators) - 1)) for _ in range(k_n)],
            "con_est": [draw(st.integers(0, len(estimators) - 1)) for _ in range(c_n)],
            "filters": filters, "obj_filt": [draw(st.integers(-1, 0)) for _ in range(k_n)],
            "con_filt": [draw(st.integers(-1, 0)) for _ in range(c_n)] if filters and draw(st.booleans()) else None,
            "mask": mask, "x": x, "lb": lb, "ub": ub,
            "magnitudes": [draw(st.sampled_from([1e-3, 1e-2, 0.1, 1.0])) for _ in range(n)],
            "boundary": [draw(st.integers(1, 3)) for _ in range(n)],
            "sampler": sampler, "seed": draw(st.integers(0, 10**6)),
            "rmin": draw(st.integers(0, r_n)), "pmin": draw(st.integers(1, p_n)),
            "slopes": [draw(val) for _ in range(r_n * (k_n + c_n) * n)],
            "offsets": [draw(val) for _ in range(r_n * (k_n + c_n))],
            "split": draw(st.sampled_from([False, False, "same", "same", "near", "far", "fixed-far"])),
            "scales": [draw(st.sampled_from([0.5, 2.0, 10.0, 1.0])) for _ in range(n)] if scaled else None,
            "offsets_v": [draw(st.sampled_from([0.0, 1.0, -2.0])) for _ in range(n)] if scaled else None,
        }
        if merge and draw(st.booleans()):  # identical realizations
            base = case["slopes"][: (k_n + c_n) * n]
            case["slopes"] = base * r_n
            boffs = case["offsets"][: (k_n + c_n)]
            case["offsets"] = boffs * r_n
        case["unit"] = 1.0
        if "stddev" in estimators and draw(st.integers(0, 2)) == 0:
            # a large common offset of all realizations of one function (NPV-like values): the spread, not the level, matters
            big = draw(st.sampled_from([1e5, 1e6, -3e6]))
            col_b = draw(st.integers(0, k_n + c_n - 1))
            for r in range(r_n):
                case["offsets"][r * (k_n + c_n) + col_b] += big
            case["magnitudes"] = [max(m_, 0.01) for m_ in case["magnitudes"]]
            case["common_offset"] = big
        elif draw(st.integers(0, 3)) == 0:  # the whole problem expressed in another unit: variables, bounds, magnitudes and function offsets
            unit = draw(st.sampled_from([1e-9, 1e-6, 1e-3, 1e3, 1e6]))
            case["unit"] = unit
            for key in ("x", "lb", "ub", "magnitudes", "offsets"):
                case[key] = [v * unit for v in case[key]]
            if case["offsets_v"] is not None:
                case["offsets_v"] = [v * unit for v in case["offsets_v"]]
            if case["split"] not in (False, "same"):
                case["split"] = "same"
        if r_n > 1 and not merge and not filters and estimators == ["mean"] and draw(st.integers(0, 3)) == 0:
            # control-variate style weights: a negative entry, positive sum
            neg = draw(st.integers(0, r_n - 1))
            case["weights"] = [(-0.5 if r == neg else max(wt, 1.0)) for r, wt in enumerate(case["weights"])]
        nan_n = draw(st.sampled_from([0, 0, 0, 1, 2]))
        case["nans"] = sorted({(draw(st.integers(0, r_n - 1)), draw(st.integers(-1, p_n - 1)), draw(st.integers(0, k_n + c_n - 1)))
                               for _ in range(nan_n)})
        if "stddev" in estimators and r_n > 2 and draw(st.integers(0, 2)) == 0:  # noqa: PLR2004
            # a realization that failed in the function evaluation (NaN values) next to a spread estimated from the others
            case["nans"] = sorted({*case["nans"], (draw(st.integers(0, r_n - 1)), -1, draw(st.integers(0, k_n + c_n - 1)))})
            case["rmin"] = min(case["rmin"], r_n - 1)
            case["failed_with_stddev"] = True
        if r_n > 1 and n < p_n and not merge and draw(st.integers(0, 3)) == 0:
            # staggered failures under one shared design: in every realization another perturbation fails, each realization keeps
            # P-1 perturbations of its own (spanning the variables), the perturbations that succeeded everywhere need not span them
            rows = [[1.0 if i == p else 0.0 for i in range(n)] for p in range(n)]
            rows += [[draw(st.sampled_from([-1.0, 1.0, 0.5, -0.5])) for _ in range(n)] for _ in range(p_n - n)]
            case["sampler"] = {"kind": "design", "shape": "staggered", "samples": [rows]}
            case["nans"] = sorted({(r, r, draw(st.integers(0, k_n + c_n - 1))) for r in range(min(r_n, p_n - 1))})
            case["pmin"] = min(case["pmin"], p_n - 1)
            case["staggered"] = True
        return case

    def body(case: dict[str, Any]) -> None:
        try:
            info = run_case(case)
        except Violation:
            col.case(case, nontrivial=True, classes=("merged" if case["merge"] else "per-realization",))
            raise
        nontrivial = info["compared"] > 0 and (
            case["R"] >= 2 or bool(case["nans"]) or case["mask"] is not None or info["hit_bound"])  # noqa: PLR2004
        col.case(case, nontrivial=nontrivial, classes=(
            "merged" if case["merge"] else "per-realization", f"sampler={case['sampler'].get('method', case['sampler'].get('shape'))}",
            "compared" if info["compared"] else ("rejected" if info.get("rejected") else ("aborted" if info["aborted"] else
                                                  ("no-gradient" if info["no_gradient"] else "ill-conditioned"))),
            f"split={case['split']}", "scaled" if case["scales"] else "unscaled",
            "stddev" if "stddev" in case["estimators"] else "mean-only", ("staggered-failures" if case.get("staggered") else "failures") if case["nans"] else "no-failures",
            "bound-hit" if info["hit_bound"] else "inside", "filtered" if case["filters"] else "unfiltered",
            "negative-weight" if min(case["weights"]) < 0 else "non-negative-weights", "large-common-offset" if case.get("common_offset") else "moderate-levels", f"unit={case['unit']:g}"))

    run_hypothesis(col, cases(), body, seed=item["seed"], max_examples=item["examples"])
    return col


def shards(tier: str, seed: int) -> list[dict[str, Any]]:
    nshard = 8 if tier == "quick" else 16
    examples = 150 if tier == "quick" else 3000
    return [{"seed": seed * 1000 + i, "examples": examples} for i in range(nshard)]


def run_shard(item: dict[str, Any]) -> Collector:
    return hypothesis_shard(item)


def replay(case: dict[str, Any]) -> None:
    case = dict(case)
    case["nans"] = [tuple(x) for x in case["nans"]]
    run_case(case)
