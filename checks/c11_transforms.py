"""C11 - Scaling transforms change optimizer coordinates only, not user-domain behaviour."""

from __future__ import annotations

from typing import Any

import numpy as np

from harness.core import Collector, check, run_hypothesis
from harness.ropt_util import AffineEvaluator, ConstraintScaler, DesignSamplerPlugin, ObjectiveScaler
from ropt.config.enopt import EnOptConfig
from ropt.ensemble_evaluator import EnsembleEvaluator
from ropt.enums import OptimizerExitCode
from ropt.exceptions import OptimizationAborted
from ropt.plugins import PluginManager
from ropt.transforms import OptModelTransforms, VariableScaler

ID = "C11"
LEVEL = "exploration"
RULE = (
    "Hypothesis: n in 1..4 variables with positive scales and offsets, K in 1..2 objectives and C in 0..2 non-linear "
    "constraints with positive scales, finite/infinite bounds, 0-3 linear constraints (non-zero rows, all bound kinds), "
    "ABSOLUTE and RELATIVE perturbations, all boundary types, R in 1..3, P in 1..3, injected design samples that may "
    "leave the bounds, start points inside and outside the bounds, failed realizations up to 'too few successes, no function values'; the same user-domain configuration and point is evaluated (functions + gradients) with and "
    "without the transforms (EnsembleEvaluator on the validated configuration; for a quarter of the cases also the first evaluation of "
    "BasicOptimizer given the plain dictionary). Oracle (differential): evaluator rows, user-domain results (variables, per-realization "
    "values, per-objective and per-constraint functions, all constraint diffs/violations) agree; 40 random points are feasible w.r.t. the "
    "user bounds/linear constraints iff their images are feasible w.r.t. the transformed configuration; from(to(x)) = x. "
    "Non-trivial: a variable scale != 1 and (a linear constraint or a perturbation that hits a bound)."
)
ASSUMPTIONS = [
    "linear scaling transforms only (VariableScaler and analogous objective/constraint scalers)",
    "tolerances: rows and values 1e-9 relative; test points closer than 1e-9 to a boundary are skipped",
    "the weighted objective and the gradients are not compared: the statement lists neither (the weighted objective is only "
    "back-transformed if the objective transform implements that, gradients stay derivatives w.r.t. optimizer variables)",
]


def build(case: dict[str, Any], with_transforms: bool, raw: bool = False) -> tuple[Any, AffineEvaluator, PluginManager, OptModelTransforms | None]:  # noqa: FBT001, FBT002
    """raw: return the configuration dictionary instead of the validated object."""
    n, r_n, p_n, k_n, c_n, l_n = case["n"], case["R"], case["P"], case["K"], case["C"], case["L"]
    cfg: dict[str, Any] = {
        "variables": {"initial_values": case["x"], "lower_bounds": case["lb"], "upper_bounds": case["ub"]},
        "realizations": {"weights": case["weights"], "realization_min_success": case.get("rmin", r_n) if case.get("fail") else None},
        "objectives": {"weights": case["obj_weights"]},
        "gradient": {"number_of_perturbations": p_n, "perturbation_magnitudes": case["magnitudes"],
                     "perturbation_types": case["types"], "boundary_types": case["boundary"]},
        "samplers": [{"method": "design/fixed"}],
    }
    if case.get("default_magnitudes"):  # the documented default magnitude is a user-domain quantity like a configured one
        del cfg["gradient"]["perturbation_magnitudes"]
    if case.get("cvar") and (case["cvar"][0] == "cvar-objective" or c_n):
        kind, percentile = case["cvar"]
        cfg["realization_filters"] = [{"method": kind, "options": {"sort": [0] if kind == "cvar-objective" else 0, "percentile": percentile}}]
    if l_n:
        cfg["linear_constraints"] = {"coefficients": case["A"], "lower_bounds": case["llb"], "upper_bounds": case["lub"]}
    if c_n:
        cfg["nonlinear_constraints"] = {"lower_bounds": case["nlb"], "upper_bounds": case["nub"]}
    if cfg.get("realization_filters"):  # the tail average of the function that is ranked (its value does not depend on how ties are ordered)
        if case["cvar"][0] == "cvar-objective":
            cfg["objectives"]["realization_filters"] = [0] + [-1] * (k_n - 1)
        else:
            cfg["nonlinear_constraints"]["realization_filters"] = [0] + [-1] * (c_n - 1)
    transforms = None
    if with_transforms:
        transforms = OptModelTransforms(
            # ("scalar": one factor for all variables, given as a 0-d array)
            variables=(VariableScaler(np.array(case["vscale"][0]), None) if case.get("v_kind") == "scalar" else
                       VariableScaler(None if case.get("v_kind") == "offsets" else np.array(case["vscale"]),
                                      None if case.get("v_kind") == "scales" else np.array(case["voff"]))) if case["use_v"] else None,
            objectives=ObjectiveScaler(case["oscale"]) if case["use_o"] else None,
            nonlinear_constraints=ConstraintScaler(case["cscale"]) if case["use_c"] and c_n else None,
        )
    if case.get("var_object") and not raw:  # the variables section handed in as an already validated object (user-domain values)
        from ropt.config.enopt import VariablesConfig

        cfg["variables"] = VariablesConfig.model_validate(cfg["variables"])
    config = cfg if raw else EnOptConfig.model_validate(cfg, context=transforms)
    a = np.array(case["slopes"], dtype=np.float64).reshape(r_n, k_n + c_n, n)
    b = np.array(case["offsets"], dtype=np.float64).reshape(r_n, k_n + c_n)
    ev = AffineEvaluator(a[:, :k_n], b[:, :k_n], a[:, k_n:] if c_n else None, b[:, k_n:] if c_n else None,
                         fail={(int(r), -1): [("obj", 0)] for r in case.get("fail") or []})
    manager = PluginManager()
    manager.add_plugin("sampler", "design", DesignSamplerPlugin([np.array(case["design"], dtype=np.float64).reshape(r_n, p_n, n)]))
    return config, ev, manager, transforms


def close(case: Any, a: Any, b: Any, tol: float, sig: str, what: str) -> None:  # noqa: ANN401, PLR0913
    if a is None or b is None:
        check(a is None and b is None, sig, f"{what}: present in only one of the runs", case)
        return
    a, b = np.asarray(a, dtype=np.float64), np.asarray(b, dtype=np.float64)
    check(a.shape == b.shape, sig, f"{what}: shapes {a.shape} vs {b.shape}", case)
    fin = np.isfinite(b)
    scale = 1.0 + (float(np.max(np.abs(b[fin]))) if fin.any() else 0.0)
    ok = np.array_equal(a[~fin], b[~fin], equal_nan=True) and bool(np.all(np.abs(a[fin] - b[fin]) <= tol * scale))
    check(ok, sig, f"{what}: with transforms {a.tolist()} != without {b.tolist()}", case)


def run_basic(case: dict[str, Any]) -> None:
    """The same dictionary handed to BasicOptimizer with and without the transforms: the evaluator sees the same vectors."""
    from ropt.plan import BasicOptimizer

    rows = []
    for with_t in (True, False):
        cfg, ev, _, transforms = build(case, with_t, raw=True)
        cfg["samplers"] = [{"method": "norm"}]
        cfg["gradient"]["seed"] = 7
        cfg["optimizer"] = {"method": "slsqp", "max_functions": 1, "speculative": True}
        cfg["realizations"]["realization_min_success"] = None
        ev.fail = {}
        BasicOptimizer(cfg, ev, transforms=transforms).run()
        check(len(ev.calls) >= 1, "harness", "BasicOptimizer made no evaluation", case)
        rows.append(ev.calls[0]["variables"])
    close(case, rows[0], rows[1], 1e-9, "evaluator-rows", "variables handed to the evaluator by BasicOptimizer(<dict>, transforms=...)")


def run_case(case: dict[str, Any]) -> dict[str, Any]:
    if case.get("basic"):
        run_basic(case)
    cfg_t, ev_t, mgr_t, transforms = build(case, True)
    cfg_u, ev_u, mgr_u, _ = build(case, False)
    assert transforms is not None
    x_user = np.array(case["x"], dtype=np.float64)
    x_opt = np.asarray(cfg_t.variables.initial_values)
    if transforms.variables is not None:
        back = transforms.variables.from_optimizer(transforms.variables.to_optimizer(x_user))
        check(bool(np.all(np.abs(back - x_user) <= 1e-12 * (1 + np.abs(x_user)))), "round-trip", f"from(to(x)) = {back.tolist()} != {x_user.tolist()}", case)
        check(bool(np.all(np.abs(transforms.variables.from_optimizer(x_opt) - x_user) <= 1e-12 * (1 + np.abs(x_user)))), "round-trip",
              "validated initial values are not the optimizer-domain image of the configured ones", case)
    ens_t, ens_u = EnsembleEvaluator(cfg_t, transforms, ev_t, mgr_t), EnsembleEvaluator(cfg_u, None, ev_u, mgr_u)
    def both(compute_functions: bool, compute_gradients: bool) -> tuple[Any, Any] | None:  # noqa: FBT001
        out = []
        for ens, x_ in ((ens_t, x_opt), (ens_u, x_user)):
            try:
                out.append(ens.calculate(x_, compute_functions=compute_functions, compute_gradients=compute_gradients))
            except OptimizationAborted as exc:  # (a filter that finds no realization to select)
                out.append(exc.exit_code)
        ab_t, ab_u = (isinstance(o, OptimizerExitCode) for o in out)
        check(ab_t == ab_u and (not ab_t or out[0] == out[1]), "abort-differs",
              f"with transforms: {out[0] if ab_t else 'results'}, without: {out[1] if ab_u else 'results'}", case)
        return None if ab_t else (out[0], out[1])

    g_t = g_u = None
    if case.get("fail"):  # some realizations fail: functions only (possibly too few successes: no function values at all)
        pair = both(True, False)  # noqa: FBT003
        if pair is None:
            return {"nontrivial": False, "hit": False, "skipped": 0, "aborted": True}
        (f_t,), (f_u,) = pair
    elif case.get("split"):  # functions first, then a gradient-only request at the same point
        pair, pair_g = both(True, False), both(False, True)  # noqa: FBT003
        if pair is None or pair_g is None:
            return {"nontrivial": False, "hit": False, "skipped": 0, "aborted": True}
        (f_t,), (f_u,) = pair
        (g_t,), (g_u,) = pair_g
    else:
        pair = both(True, True)  # noqa: FBT003
        if pair is None:
            return {"nontrivial": False, "hit": False, "skipped": 0, "aborted": True}
        (f_t, g_t), (f_u, g_u) = pair
    # evaluator sees the same user-domain rows
    check(len(ev_t.calls) == len(ev_u.calls), "evaluator-rows", "different number of evaluator calls", case)
    for c_t, c_u in zip(ev_t.calls, ev_u.calls):
        close(case, c_t["variables"], c_u["variables"], 1e-9, "evaluator-rows", "variables handed to the evaluator")
        check(bool(np.array_equal(c_t["realizations"], c_u["realizations"])) and
              bool(np.array_equal(c_t["perturbations"], c_u["perturbations"])), "evaluator-rows", "labels differ", case)
    fu_t = f_t.transform_from_optimizer(transforms)
    gu_t = None if g_t is None else g_t.transform_from_optimizer(transforms)
    close(case, fu_t.evaluations.variables, f_u.evaluations.variables, 1e-9, "result-variables", "variables")
    close(case, fu_t.evaluations.objectives, f_u.evaluations.objectives, 1e-9, "result-values", "per-realization objectives")
    close(case, fu_t.evaluations.constraints, f_u.evaluations.constraints, 1e-9, "result-values", "per-realization constraints")
    check((fu_t.functions is None) == (f_u.functions is None), "result-functions", "function values present in only one of the runs", case)
    if f_u.functions is not None:
        close(case, fu_t.functions.objectives, f_u.functions.objectives, 1e-9, "result-functions", "objective functions")
        close(case, fu_t.functions.constraints, f_u.functions.constraints, 1e-9, "result-functions", "constraint functions")
    if gu_t is not None:
        close(case, gu_t.evaluations.perturbed_variables, g_u.evaluations.perturbed_variables, 1e-9, "result-variables", "perturbed variables")
        close(case, gu_t.evaluations.perturbed_objectives, g_u.evaluations.perturbed_objectives, 1e-9, "result-values", "perturbed objectives")
        close(case, gu_t.evaluations.perturbed_constraints, g_u.evaluations.perturbed_constraints, 1e-9, "result-values", "perturbed constraints")
    ci_t, ci_u = fu_t.constraint_info, f_u.constraint_info
    check((ci_t is None) == (ci_u is None), "constraint-info", "constraint info present in only one run", case)
    if ci_t is not None:
        for name in ("bound_lower", "bound_upper", "bound_violation", "linear_lower", "linear_upper", "linear_violation",
                     "nonlinear_lower", "nonlinear_upper", "nonlinear_violation"):
            close(case, getattr(ci_t, name), getattr(ci_u, name), 1e-9, "constraint-info", name)
    # feasibility equivalence
    lb_u, ub_u = np.array(case["lb"], dtype=np.float64), np.array(case["ub"], dtype=np.float64)
    lb_t, ub_t = np.asarray(cfg_t.variables.lower_bounds), np.asarray(cfg_t.variables.upper_bounds)
    skipped = 0
    for pt in np.array(case["points"], dtype=np.float64).reshape(-1, case["n"]):
        pt_o = pt if transforms.variables is None else transforms.variables.to_optimizer(pt)
        vals_u = [pt - lb_u, ub_u - pt]
        vals_t = [pt_o - lb_t, ub_t - pt_o]
        if case["L"]:
            a_u = np.array(case["A"], dtype=np.float64)
            lc = cfg_t.linear_constraints
            v_u = a_u @ pt
            v_t = np.asarray(lc.coefficients) @ pt_o
            vals_u += [v_u - np.array(case["llb"], dtype=np.float64), np.array(case["lub"], dtype=np.float64) - v_u]
            vals_t += [v_t - np.asarray(lc.lower_bounds), np.asarray(lc.upper_bounds) - v_t]
        flat_u, flat_t = np.concatenate(vals_u), np.concatenate(vals_t)
        if np.any(np.abs(flat_u[np.isfinite(flat_u)]) < 1e-9):  # noqa: PLR2004
            skipped += 1
            continue
        check(bool(np.array_equal(flat_u >= 0, flat_t >= 0)), "feasibility",
              f"point {pt.tolist()}: user-domain feasibility pattern {(flat_u >= 0).tolist()} != optimizer-domain {(flat_t >= 0).tolist()}", case)
    pv = np.asarray(g_u.evaluations.perturbed_variables) if g_u is not None else x_user
    hit = bool(np.any(pv <= lb_u) or np.any(pv >= ub_u))
    scaled = case["use_v"] and (case.get("v_kind") != "offsets") and any(s != 1.0 for s in case["vscale"])
    return {"nontrivial": scaled and (case["L"] > 0 or hit), "hit": hit, "skipped": skipped}


def hypothesis_shard(item: dict[str, Any]) -> Collector:
    from hypothesis import strategies as st

    col = Collector(ID)
    num = st.sampled_from([-3.0, -1.0, -0.5, 0.25, 1.0, 2.0, 4.5])

    @st.composite
    def bounds(draw: Any, size: int) -> tuple[list[float], list[float]]:  # noqa: ANN401
        lo, hi = [], []
        for _ in range(size):
            kind = draw(st.sampled_from(["eq", "lower", "upper", "two", "free", "two"]))
            base = draw(num)
            lo.append(base if kind in ("eq", "lower", "two") else -np.inf)
            hi.append(base if kind == "eq" else (base + draw(st.sampled_from([0.5, 1.0, 3.0])) if kind in ("upper", "two") else np.inf))
        return lo, hi

    @st.composite
    def cases(draw: Any) -> dict[str, Any]:  # noqa: ANN401
        n, r_n, p_n = draw(st.integers(1, 4)), draw(st.integers(1, 3)), draw(st.integers(1, 3))
        k_n, c_n, l_n = draw(st.integers(1, 2)), draw(st.integers(0, 2)), draw(st.integers(0, 3))
        lb, ub, x, types = [], [], [], []
        for _ in range(n):
            kind = draw(st.sampled_from(["finite", "finite", "lower", "free"]))
            lo = draw(st.sampled_from([-2.0, 0.0, 0.5]))
            width = draw(st.sampled_from([0.5, 1.0, 4.0]))
            lb.append(lo if kind != "free" else -np.inf)
            ub.append(lo + width if kind == "finite" else np.inf)
            x.append(lo + draw(st.sampled_from([0.0, 0.25, 0.5, 1.0, 0.5, -0.5, 1.5])) * width)  # also infeasible start points
            types.append(2 if kind == "finite" and draw(st.booleans()) else 1)
        llb, lub = draw(bounds(l_n))
        nlb, nub = draw(bounds(c_n))
        a_mat = []
        for _ in range(l_n):
            row = [draw(st.sampled_from([0.0, 1.0, -1.0, 2.0, -0.5])) for _ in range(n)]
            if not any(row):
                row[draw(st.integers(0, n - 1))] = draw(st.sampled_from([1.0, -1.0]))
            a_mat.append(row)
        weights = [draw(st.sampled_from([1.0, 2.0, 0.5])) for _ in range(r_n)]
        fail = sorted(draw(st.sets(st.integers(0, r_n - 1), min_size=1))) if draw(st.integers(0, 4)) == 0 else []
        case = {
            "fail": fail, "rmin": draw(st.integers(0, r_n)), "basic": draw(st.integers(0, 3)) == 0, "var_object": draw(st.integers(0, 3)) == 0,
            "n": n, "R": r_n, "P": p_n, "K": k_n, "C": c_n, "L": l_n, "x": x, "lb": lb, "ub": ub, "types": types,
            "magnitudes": [draw(st.sampled_from([0.01, 0.1, 0.6])) for _ in range(n)],
            "boundary": [draw(st.integers(1, 3)) for _ in range(n)],
            "A": a_mat, "llb": llb, "lub": lub, "nlb": nlb, "nub": nub, "weights": weights,
            "obj_weights": [draw(st.sampled_from([1.0, 3.0])) for _ in range(k_n)],
            "slopes": [draw(num) for _ in range(r_n * (k_n + c_n) * n)], "offsets": [draw(num) for _ in range(r_n * (k_n + c_n))],
            "design": [draw(st.sampled_from([-1.0, 1.0, 0.5, -0.25, 3.0, 0.0])) for _ in range(r_n * p_n * n)],
            "use_v": draw(st.integers(0, 4)) > 0, "use_o": draw(st.booleans()), "use_c": draw(st.booleans()),
            "v_kind": draw(st.sampled_from(["both", "both", "offsets", "scales", "scalar"])), "split": draw(st.booleans()),
            "vscale": [draw(st.sampled_from([0.5, 2.0, 10.0, 1.0, 0.1])) for _ in range(n)],
            "voff": [draw(st.sampled_from([0.0, 1.0, -2.5])) for _ in range(n)],
            "oscale": [draw(st.sampled_from([2.0, 0.5, 100.0])) for _ in range(k_n)],
            "cscale": [draw(st.sampled_from([4.0, 0.25, 4.0, 0.25, 1e9, 1e-9])) for _ in range(c_n)],
            "default_magnitudes": draw(st.integers(0, 4)) == 0,
            "cvar": [draw(st.sampled_from(["cvar-objective", "cvar-constraint", "cvar-constraint"])),
                     draw(st.sampled_from([0.3, 0.5, 0.75]))] if draw(st.integers(0, 2)) == 0 else None,
            "points": [draw(st.sampled_from([-3.0, -2.0, -1.0, -0.25, 0.0, 0.3, 0.75, 1.0, 2.5, 5.0])) for _ in range(n * 40)],
        }
        if case["cvar"] and case["cvar"][0] == "cvar-constraint" and c_n and r_n > 1 and draw(st.booleans()):
            # directed: a two-sided constraint whose bounds come close to each other (but stay different) in the optimizer domain
            case["use_c"] = True
            case["cscale"][0] = draw(st.sampled_from([1e9, 1e10, 1e12]))
            case["nlb"][0] = draw(num)
            case["nub"][0] = case["nlb"][0] + draw(st.sampled_from([0.5, 1.0, 3.0]))
        return case

    def body(case: dict[str, Any]) -> None:
        info = run_case(case)
        col.case(case, nontrivial=info["nontrivial"], classes=(
            "var-transform" if case["use_v"] else "no-var-transform", "split" if case.get("split") else "combined", f"L={case['L']}", f"C={case['C']}",
            "bound-hit" if info["hit"] else "inside", "relative" if 2 in case["types"] else "absolute",  # noqa: PLR2004
            "failed-realizations" if case["fail"] else "no-failures", "default-magnitudes" if case.get("default_magnitudes") else "given-magnitudes",
            f"filter={case['cvar'][0]}" if case.get("cvar") and (case["C"] or case["cvar"][0] == "cvar-objective") else "filter=none",
            "extreme-constraint-scale" if case["use_c"] and case["C"] and any(v >= 1e9 or v <= 1e-9 for v in case["cscale"]) else "moderate-constraint-scale",
            "no-function-values" if case["fail"] and len(case["weights"]) - len(case["fail"]) < case["rmin"] else "function-values",
            "start-outside-bounds" if any(v < lo or v > hi for v, lo, hi in zip(case["x"], case["lb"], case["ub"])) else "start-inside-bounds"))

    run_hypothesis(col, cases(), body, seed=item["seed"], max_examples=item["examples"])
    return col


def shards(tier: str, seed: int) -> list[dict[str, Any]]:
    nshard = 8 if tier == "quick" else 16
    examples = 150 if tier == "quick" else 3000
    return [{"seed": seed * 1000 + i, "examples": examples} for i in range(nshard)]


def run_shard(item: dict[str, Any]) -> Collector:
    return hypothesis_shard(item)


def replay(case: dict[str, Any]) -> None:
    run_case(case)
