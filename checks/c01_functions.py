"""C01 - Ensemble function values are the normalized weighted estimate over realizations."""

from __future__ import annotations

from typing import Any

import numpy as np

from harness.core import Collector, check, guard_call, run_hypothesis
from harness.ropt_util import AffineEvaluator
from ropt.config.enopt import EnOptConfig
from ropt.ensemble_evaluator import EnsembleEvaluator
from ropt.enums import OptimizerExitCode
from ropt.exceptions import OptimizationAborted
from ropt.plugins import PluginManager
from ropt.plugins.realization_filter.base import RealizationFilter, RealizationFilterPlugin

ID = "C01"
LEVEL = "exploration"
RULE = (
    "Hypothesis: R in 1..6 realizations, K in 1..3 objectives, C in 0..2 constraints, n in 1..3 variables; realization "
    "and objective weights from {0, small ints, floats} with positive sum; 1-2 estimators (mean/stddev) with per-function "
    "maps; 0-2 filters of the four kinds with per-function maps that mix -1 with filter indices; affine evaluator outputs "
    "in [-10,10] with NaN masks in any column; realization_min_success in 0..R; x as one vector or a batch of 1-3 vectors "
    "(with repeats), obtained alone or together with a gradient whose perturbations partly fail; values with large common "
    "offsets (1e6..1e8) and small spread. Oracle: independent formula per function from the reported per-realization values and the weights in "
    "force; metamorphic: alone == any batch position (bitwise), unrelated function values do not matter. "
    "Non-trivial: R>=2 with non-uniform weights, or a failure with a surviving positive-weight realization, or a filter "
    "map mixing -1 with a filter index, or two different estimators."
)
ASSUMPTIONS = [
    "weights produced by a filter are taken from the reported rows (the filters themselves are decided by C04/C05)",
    "comparison tolerance rtol 1e-10 (atol 1e-10 * scale); bitwise equality for the batch-layout relation",
    "cases where no successful realization has positive weight are counted but not compared (value undefined)",
]

def score_weights(column: np.ndarray) -> np.ndarray:
    """Weights of the third-party filter below: 1 + number of successful realizations with a smaller value (0 for failed ones).

    A filter may return any non-negative weights (they are normalized later), these are mostly larger than one.
    """
    ok = ~np.isnan(column)
    return np.array([1.0 + float(np.count_nonzero(column[ok] < v)) if good else 0.0 for v, good in zip(column, ok)])


class ScoreFilter(RealizationFilter):
    def __init__(self, enopt_config: EnOptConfig, filter_index: int) -> None:  # noqa: D107
        del enopt_config, filter_index

    def get_realization_weights(self, objectives: np.ndarray, constraints: np.ndarray | None) -> np.ndarray:
        del constraints
        return score_weights(np.asarray(objectives)[:, 0])


class ScoreFilterPlugin(RealizationFilterPlugin):
    def create(self, enopt_config: EnOptConfig, filter_index: int) -> ScoreFilter:
        return ScoreFilter(enopt_config, filter_index)

    def is_supported(self, method: str) -> bool:
        return method.lower() == "score"


_MANAGER = PluginManager()
_MANAGER.add_plugin("realization_filter", "verif", ScoreFilterPlugin())
RTOL = 1e-10


def build(case: dict[str, Any]) -> tuple[EnOptConfig, AffineEvaluator]:
    n, r_n, k_n, c_n = case["n"], case["R"], case["K"], case["C"]
    cfg: dict[str, Any] = {
        "variables": {"initial_values": [0.0] * n},
        "realizations": {"weights": case["weights"], "realization_min_success": case["min_success"]},
        "objectives": {"weights": case["obj_weights"]},
        "function_estimators": [{"method": m} for m in case["estimators"]],
        "realization_filters": case["filters"],
        "gradient": {"number_of_perturbations": 2, "perturbation_min_success": case.get("pmin", 2)},
    }
    if case.get("obj_est") is not None:
        cfg["objectives"]["function_estimators"] = case["obj_est"]
    if case.get("obj_filt") is not None:
        cfg["objectives"]["realization_filters"] = case["obj_filt"]
    if c_n:
        cfg["nonlinear_constraints"] = {"lower_bounds": [0.0] * c_n, "upper_bounds": [np.inf] * c_n}
        if case.get("con_est") is not None:
            cfg["nonlinear_constraints"]["function_estimators"] = case["con_est"]
        if case.get("con_filt") is not None:
            cfg["nonlinear_constraints"]["realization_filters"] = case["con_filt"]
    config = EnOptConfig.model_validate(cfg)
    a = np.array(case["slopes"], dtype=np.float64).reshape(r_n, k_n + c_n, n)
    b = np.array(case["offsets"], dtype=np.float64).reshape(r_n, k_n + c_n)
    fail = {(int(r), -1): [("obj", int(col)) if col < k_n else ("con", int(col - k_n))] for r, col in case["nans"]}
    for r, p_i in case.get("pert_nans") or []:  # failed perturbations must not influence function values
        fail[(int(r), int(p_i))] = [("obj", 0)]
    ev = AffineEvaluator(a[:, :k_n], b[:, :k_n], a[:, k_n:] if c_n else None, b[:, k_n:] if c_n else None, fail=fail)
    return config, ev


def estimator_of(case: dict[str, Any], kind: str, idx: int) -> str:
    emap = case.get("obj_est") if kind == "obj" else case.get("con_est")
    return case["estimators"][0 if emap is None else emap[idx]]


def filter_of(case: dict[str, Any], kind: str, idx: int) -> int:
    fmap = case.get("obj_filt") if kind == "obj" else case.get("con_filt")
    return -1 if fmap is None else fmap[idx]


def expected_value(method: str, f: np.ndarray, w: np.ndarray) -> float | None:
    """None = TOO_FEW_REALIZATIONS abort expected."""
    if method == "mean":
        return float(np.sum(w * np.where(w > 0, f, 0.0)))
    npos = int(np.count_nonzero(w > 0))
    if np.count_nonzero(w) < 2:  # noqa: PLR2004
        return None
    f0 = np.where(w != 0, f, 0.0)
    m = float(np.sum(w * f0))
    return float(np.sqrt(npos / (npos - 1) * np.sum(w * (np.where(w != 0, f, m) - m) ** 2)))


def oracle_one(case: dict[str, Any], cfg: EnOptConfig, res: Any, x: np.ndarray, ev: AffineEvaluator) -> None:  # noqa: ANN401, C901, PLR0912
    r_n, k_n, c_n = case["R"], case["K"], case["C"]
    configured = np.asarray(cfg.realizations.weights)
    obj_w = np.asarray(cfg.objectives.weights)
    # independent per-realization values
    table = np.array([[ev.value("obj", r, k, x) for k in range(k_n)] + [ev.value("con", r, c, x) for c in range(c_n)]
                      for r in range(r_n)])
    for r, col in case["nans"]:
        table[r, col] = np.nan
    failed = np.isnan(table).any(axis=1)
    check(bool(np.array_equal(np.asarray(res.realizations.failed_realizations), failed)), "failed-flags",
          f"failed flags {np.asarray(res.realizations.failed_realizations).tolist()} != {failed.tolist()}", case)
    # reported per-realization values: the returned ones, whole row NaN for a failed realization
    rep_obj = np.asarray(res.evaluations.objectives)
    exp_obj = np.where(failed[:, None], np.nan, table[:, :k_n])
    check(bool(np.array_equal(rep_obj, exp_obj, equal_nan=True)), "evaluations", "reported per-realization objectives differ", case)
    if c_n:
        exp_con = np.where(failed[:, None], np.nan, table[:, k_n:])
        check(bool(np.array_equal(np.asarray(res.evaluations.constraints), exp_con, equal_nan=True)), "evaluations",
              "reported per-realization constraints differ", case)
    nsucc = int(np.count_nonzero(~failed))
    if nsucc < int(cfg.realizations.realization_min_success):
        check(res.functions is None, "gate", f"{nsucc} successes < min_success but functions reported", case)
        return
    check(res.functions is not None, "gate", f"{nsucc} successes >= min_success but no functions", case)
    if nsucc == 0:
        check(bool(np.all(np.isnan(res.functions.objectives))) and bool(np.isnan(res.functions.weighted_objective)),
              "all-failed-not-nan", "all realizations failed but finite functions reported", case)
        check(np.shape(res.functions.objectives) == (k_n,) and (not c_n or np.shape(res.functions.constraints) == (c_n,)), "all-failed-shape",
              f"all realizations failed: objectives {np.shape(res.functions.objectives)}, constraints "
              f"{None if res.functions.constraints is None else np.shape(res.functions.constraints)}, expected ({k_n},) and ({c_n},)", case)
        if c_n:
            check(bool(np.all(np.isnan(res.functions.constraints))), "all-failed-not-nan", "all realizations failed but finite constraints reported", case)
        return
    values = []
    comparable = True
    for kind, count, reported, rows in (
        ("obj", k_n, res.functions.objectives, res.realizations.objective_weights),
        ("con", c_n, res.functions.constraints, res.realizations.constraint_weights),
    ):
        for idx in range(count):
            col = idx if kind == "obj" else k_n + idx
            if filter_of(case, kind, idx) >= 0:
                check(rows is not None, "weights-missing", f"{kind} {idx} is filtered but no weights are reported", case)
                w = np.asarray(rows[idx], dtype=np.float64)
                if case["filters"][filter_of(case, kind, idx)]["method"] == "verif/score":
                    # what the third-party filter returned is what is in force (up to the normalization, failed realizations dropped)
                    exp_w = score_weights(np.where(failed, np.nan, table[:, 0]))
                    check(bool(np.allclose(w * exp_w.sum(), exp_w * w.sum(), rtol=1e-12, atol=1e-12)), "filter-weights-altered",
                          f"{kind} {idx}: weights in force {w.tolist()} are not proportional to what the filter returned {exp_w.tolist()}", case)
            else:
                w = configured
            w = np.where(failed, 0.0, w)
            if not np.any(w > 0) or w.sum() <= 0:
                comparable = False
                values.append(np.nan)
                continue
            w = w / w.sum()
            exp = expected_value(estimator_of(case, kind, idx), table[:, col], w)
            check(exp is not None, "stddev-no-abort", f"stddev {kind} {idx} with <2 weighted realizations produced a value", case)
            got = float(reported[idx])
            scale = float(np.nanmax(np.abs(table[:, col]))) + 1e-300  # (relative to the magnitude of the values: 1e-9 is not zero)
            tol = RTOL * scale
            if estimator_of(case, kind, idx) == "stddev":
                live = table[:, col][w > 0]
                # relative to the spread of the values (a spread of 1e-9 is a spread), plus the rounding of the level
                tol = 1e-7 * float(np.max(np.abs(live - live.mean()))) + 1e-13 * float(np.nanmax(np.abs(table[:, col])))
            check(abs(got - exp) <= tol, "value",
                  f"{kind} {idx} ({estimator_of(case, kind, idx)}, filter {filter_of(case, kind, idx)}): reported {got!r}, "
                  f"formula {exp!r}; weights in force {w.tolist()}, values {table[:, col].tolist()}", case)
            values.append(got)
    if comparable:
        wo = float(np.sum(obj_w * np.array(values[:k_n])))
        got = float(res.functions.weighted_objective)
        check(abs(got - wo) <= RTOL * (float(np.sum(np.abs(obj_w * np.array(values[:k_n])))) + 1e-300), "weighted-objective", f"weighted objective {got!r} != {wo!r}", case)


def predicted_abort(case: dict[str, Any], cfg: EnOptConfig, x: np.ndarray, ev: AffineEvaluator) -> bool | None:
    """True: abort certain (unfiltered stddev with <2 weighted successes); None: undecidable here (filters)."""
    r_n, k_n, c_n = case["R"], case["K"], case["C"]
    failed = np.zeros(r_n, dtype=bool)
    for r, _ in case["nans"]:
        failed[r] = True
    if int(np.count_nonzero(~failed)) < int(cfg.realizations.realization_min_success) or failed.all():
        return False if not case["filters"] else None
    w = np.where(failed, 0.0, np.asarray(cfg.realizations.weights))
    if not np.any(w > 0):
        return None  # no weighted success at all: the value is undefined, not judged here
    certain = False
    for kind, count in (("obj", k_n), ("con", c_n)):
        for idx in range(count):
            if filter_of(case, kind, idx) < 0 and estimator_of(case, kind, idx) == "stddev" and np.count_nonzero(w) < 2:  # noqa: PLR2004
                certain = True
    used = any(filter_of(case, "obj", i) >= 0 for i in range(k_n)) or any(filter_of(case, "con", i) >= 0 for i in range(c_n))
    if certain and not used:
        return True
    return None if used or certain else False


def run_case(case: dict[str, Any]) -> dict[str, Any]:
    cfg, ev = build(case)
    xs = np.array(case["xs"], dtype=np.float64).reshape(-1, case["n"])
    arg = xs[0] if case["single"] else xs
    info = {"aborted": False}
    ens = EnsembleEvaluator(cfg, None, ev, _MANAGER)
    combined = bool(case.get("combined")) and case["single"]
    try:
        if combined:  # functions obtained together with a gradient (possibly with failed perturbations)
            results = ens.calculate(arg, compute_functions=True, compute_gradients=True)[:1]
        else:
            results = ens.calculate(arg, compute_functions=True, compute_gradients=False)
    except OptimizationAborted as exc:
        info["aborted"] = True
        check(exc.exit_code == OptimizerExitCode.TOO_FEW_REALIZATIONS, "abort-code", f"{exc.exit_code}", case)
        pred = [predicted_abort(case, cfg, x, ev) for x in (xs[:1] if case["single"] else xs)]
        if combined and "stddev" in case["estimators"]:
            return info  # the gradient part's stddev estimator may legitimately abort (failed perturbations, all failed)
        check(any(p is not False for p in pred), "unexpected-abort", "TOO_FEW_REALIZATIONS although every function has enough weighted successes", case)
        return info
    rows = xs[:1] if case["single"] else xs
    check(len(results) == rows.shape[0], "result-count", f"{len(results)} results for {rows.shape[0]} vectors", case)
    for x in rows:
        check(predicted_abort(case, cfg, x, ev) is not True, "stddev-no-abort", "stddev with <2 weighted realizations did not abort", case)
    for x, res in zip(rows, results):
        check(bool(np.array_equal(np.asarray(res.evaluations.variables), x)), "variables", "reported variables differ", case)
        oracle_one(case, cfg, res, x, ev)
    # metamorphic 1: evaluated alone == any batch position, bitwise
    if rows.shape[0] > 1 or not case["single"]:
        for x, res in zip(rows, results):
            _, ev1 = build(case)
            (alone,) = EnsembleEvaluator(cfg, None, ev1, _MANAGER).calculate(x, compute_functions=True, compute_gradients=False)
            same = (alone.functions is None) == (res.functions is None)
            if same and res.functions is not None:
                same = (np.array_equal(alone.functions.objectives, res.functions.objectives, equal_nan=True)
                        and np.array_equal(alone.functions.weighted_objective, res.functions.weighted_objective, equal_nan=True)
                        and (res.functions.constraints is None
                             or np.array_equal(alone.functions.constraints, res.functions.constraints, equal_nan=True)))
            check(same, "batch-layout", "value at x differs between a single evaluation and a batch position", case)
    # metamorphic 3: what an EnsembleEvaluator object evaluated before (and which realizations failed then) does not matter
    if case.get("later_nans") is not None:
        case3 = dict(case, nans=[tuple(t) for t in case["later_nans"]], pert_nans=[])
        _, ev3 = build(case3)
        ev.fail = ev3.fail
        for x in rows:
            outcomes = []
            for obj in (ens, EnsembleEvaluator(cfg, None, build(case3)[1], _MANAGER)):
                try:
                    (one,) = obj.calculate(x, compute_functions=True, compute_gradients=False)
                except OptimizationAborted as exc:
                    one = exc.exit_code
                outcomes.append(one)
            used, fresh = outcomes
            same = isinstance(used, OptimizerExitCode) == isinstance(fresh, OptimizerExitCode)
            if same and isinstance(used, OptimizerExitCode):
                same = used == fresh
            elif same:
                same = (used.functions is None) == (fresh.functions is None) and bool(np.array_equal(
                    np.asarray(used.realizations.failed_realizations), np.asarray(fresh.realizations.failed_realizations)))
                if same and used.functions is not None:
                    same = (np.array_equal(used.functions.objectives, fresh.functions.objectives, equal_nan=True)
                            and np.array_equal(used.functions.weighted_objective, fresh.functions.weighted_objective, equal_nan=True)
                            and (fresh.functions.constraints is None
                                 or np.array_equal(used.functions.constraints, fresh.functions.constraints, equal_nan=True)))
                for name in ("objective_weights", "constraint_weights"):
                    w_u, w_f = getattr(used.realizations, name), getattr(fresh.realizations, name)
                    same = same and (w_u is None) == (w_f is None) and (w_u is None or bool(np.array_equal(w_u, w_f, equal_nan=True)))
            check(same, "history-dependent",
                  f"an evaluator object that had handled an evaluation with failures {case['nans']} reports for the next evaluation at "
                  f"{x.tolist()} (failures {case['later_nans']}) something else than a fresh evaluator object does", case)
            if not isinstance(used, OptimizerExitCode):
                oracle_one(case3, cfg, used, x, ev)
    # metamorphic 2: values of an unrelated function do not matter
    if case.get("meta_col") is not None:
        col = case["meta_col"] % (case["K"] + case["C"])
        case2 = dict(case)
        offs = np.array(case["offsets"], dtype=np.float64).reshape(case["R"], -1).copy()
        offs[:, col] += np.arange(1, case["R"] + 1) * 0.37
        case2["offsets"] = offs.ravel().tolist()
        cfg2, ev2 = build(case2)
        try:
            results2 = EnsembleEvaluator(cfg2, None, ev2, _MANAGER).calculate(arg, compute_functions=True, compute_gradients=False)
        except OptimizationAborted:
            results2 = None
        if results2 is not None:
            k_n = case["K"]
            for res, res2 in zip(results, results2):
                if res.functions is None or res2.functions is None:
                    continue
                for kind, count in (("obj", k_n), ("con", case["C"])):
                    for idx in range(count):
                        me = idx if kind == "obj" else k_n + idx
                        if me == col or _ranks_on(case, filter_of(case, kind, idx), col):
                            continue
                        a = (res.functions.objectives if kind == "obj" else res.functions.constraints)[idx]
                        b = (res2.functions.objectives if kind == "obj" else res2.functions.constraints)[idx]
                        check(bool(np.array_equal(a, b, equal_nan=True)), "cross-talk",
                              f"{kind} {idx} changed when only the values of function column {col} changed", case)
    return info


def _ranks_on(case: dict[str, Any], filt: int, col: int) -> bool:
    if filt < 0:
        return False
    spec = case["filters"][filt]
    if spec["method"] == "verif/score":
        return col == 0
    srt = spec["options"]["sort"]
    if spec["method"].endswith("objective"):
        return col in srt
    return col == case["K"] + srt


def hypothesis_shard(item: dict[str, Any]) -> Collector:
    from hypothesis import strategies as st

    col = Collector(ID)
    weight = st.sampled_from([0.0, 1.0, 1.0, 2.0, 3.0, 0.25, 1.7])
    val = st.one_of(st.integers(-5, 5).map(float), st.floats(-10, 10, allow_nan=False, width=32).map(float))

    @st.composite
    def cases(draw: Any) -> dict[str, Any]:  # noqa: ANN401
        n, r_n = draw(st.integers(1, 3)), draw(st.integers(1, 6))
        k_n, c_n = draw(st.integers(1, 3)), draw(st.integers(0, 2))
        weights = [draw(weight) for _ in range(r_n)]
        if sum(weights) == 0:
            weights[draw(st.integers(0, r_n - 1))] = 1.0
        if draw(st.integers(0, 3)) == 0:
            weights = [1.0] * r_n
        obj_weights = [draw(weight) for _ in range(k_n)]
        if sum(obj_weights) == 0:
            obj_weights[0] = 1.0
        estimators = draw(st.sampled_from([["mean"], ["stddev"], ["mean", "stddev"], ["stddev", "mean"], ["mean", "mean"]]))
        e_n = len(estimators)
        f_n = draw(st.integers(0, 2))
        filters = []
        for _ in range(f_n):
            kind = draw(st.sampled_from(["sort-objective", "cvar-objective", "verif/score"] + (["sort-constraint", "cvar-constraint"] if c_n else [])))
            if kind == "verif/score":  # a third-party filter (plug-in) that returns scores larger than one
                filters.append({"method": kind})
                continue
            if kind.startswith("sort"):
                first = draw(st.integers(0, r_n - 1))
                opts: dict[str, Any] = {"first": first, "last": draw(st.integers(first, r_n - 1))}
            else:
                opts = {"percentile": draw(st.sampled_from([0.25, 0.5, 0.75, 1.0, 0.3, 0.9]))}
            opts["sort"] = (sorted(draw(st.sets(st.integers(0, k_n - 1), min_size=1))) if kind.endswith("objective")
                            else draw(st.integers(0, c_n - 1)))
            filters.append({"method": kind, "options": opts})
        case: dict[str, Any] = {
            "n": n, "R": r_n, "K": k_n, "C": c_n, "weights": weights, "obj_weights": obj_weights,
            "estimators": estimators, "filters": filters,
            "min_success": draw(st.integers(0, r_n)),
            "obj_est": [draw(st.integers(0, e_n - 1)) for _ in range(k_n)] if e_n > 1 or draw(st.booleans()) else None,
            "con_est": [draw(st.integers(0, e_n - 1)) for _ in range(c_n)] if c_n and (e_n > 1 or draw(st.booleans())) else None,
            "obj_filt": [draw(st.integers(-1, f_n - 1)) for _ in range(k_n)] if f_n and draw(st.integers(0, 4)) else None,
            "con_filt": [draw(st.integers(-1, f_n - 1)) for _ in range(c_n)] if f_n and c_n and draw(st.integers(0, 4)) else None,
            "slopes": [draw(val) for _ in range(r_n * (k_n + c_n) * n)],
            "offsets": [draw(val) for _ in range(r_n * (k_n + c_n))],
        }
        if draw(st.integers(0, 4)) == 0:  # values with a large common offset and a small spread (e.g. NPV-like)
            big = draw(st.sampled_from([1e6, 2.5e7, -1e8]))
            col_b = draw(st.integers(0, k_n + c_n - 1))
            for r in range(r_n):
                case["offsets"][r * (k_n + c_n) + col_b] += big
        elif draw(st.integers(0, 5)) == 0:  # all values of the order 1e-9 (other units): small is not zero
            case["slopes"] = [v * 1e-9 for v in case["slopes"]]
            case["offsets"] = [v * 1e-9 for v in case["offsets"]]
            case["tiny_values"] = True
        nan_n = draw(st.sampled_from([0, 0, 1, 1, 2, 3]))
        case["nans"] = sorted({(draw(st.integers(0, r_n - 1)), draw(st.integers(0, k_n + c_n - 1))) for _ in range(nan_n)})
        b_n = draw(st.integers(1, 3))
        pts = [[draw(st.sampled_from([0.0, 1.0, -0.5, 2.0])) for _ in range(n)] for _ in range(b_n)]
        if b_n > 1 and draw(st.booleans()):
            pts[-1] = list(pts[0])
        case["xs"] = pts
        case["single"] = b_n == 1 and draw(st.booleans())
        case["meta_col"] = draw(st.integers(0, 5)) if draw(st.booleans()) else None
        case["combined"] = draw(st.booleans())
        if draw(st.integers(0, 2)) == 0:  # a later evaluation by the same evaluator object, with other (mostly no) failures
            case["later_nans"] = sorted({(draw(st.integers(0, r_n - 1)), draw(st.integers(0, k_n + c_n - 1)))
                                         for _ in range(draw(st.sampled_from([0, 0, 0, 1, 2])))})
        case["pmin"] = draw(st.integers(1, 2))
        case["pert_nans"] = sorted({(draw(st.integers(0, r_n - 1)), draw(st.integers(0, 1))) for _ in range(draw(st.sampled_from([0, 0, 1, 2, 3])))})
        return case

    def body(case: dict[str, Any]) -> None:
        info = run_case(case)
        w = case["weights"]
        r_n = case["R"]
        failed = {r for r, _ in case["nans"]}
        survive = any(w[r] > 0 for r in range(r_n) if r not in failed)
        maps = [m for m in (case["obj_filt"], case["con_filt"]) if m]
        mixed = any(-1 in m and any(j >= 0 for j in m) for m in maps) or (
            len(maps) == 1 and case["C"] > 0 and any(j >= 0 for j in maps[0]))
        used_est = {estimator_of(case, "obj", i) for i in range(case["K"])} | {estimator_of(case, "con", i) for i in range(case["C"])}
        nontrivial = (not info["aborted"]) and (
            (r_n >= 2 and len(set(w)) > 1) or (bool(failed) and survive) or mixed or len(used_est) > 1)  # noqa: PLR2004
        col.case(case, nontrivial=nontrivial, classes=(
            "aborted" if info["aborted"] else "value", f"filters={len(case['filters'])}", "mixed-map" if mixed else "plain-map",
            "failures" if failed else "no-failures", "batch" if not case["single"] else "single",
            "nonuniform" if len(set(w)) > 1 else "uniform", "two-estimators" if len(used_est) > 1 else "one-estimator",
            "reused-evaluator-object" if case.get("later_nans") is not None else "fresh-evaluator-object"))

    run_hypothesis(col, cases(), body, seed=item["seed"], max_examples=item["examples"])
    return col


def grid_shard(item: dict[str, Any]) -> Collector:
    """Every filter-index map of K objectives and C constraints over two filters (one ranking an objective, one a constraint),
    evaluated alone / together with a gradient / in a batch, with and without a failed realization; fixed values."""
    import itertools

    col = Collector(ID)
    k_n, c_n = item["K"], item["C"]
    r_n, n = 4, 2
    filters = [{"method": "sort-objective", "options": {"sort": [0], "first": 1, "last": 2}},
               {"method": "cvar-constraint", "options": {"sort": 0, "percentile": 0.5}}]
    # (None: the map is not given at all - not the same code path as a map of -1 entries)
    for obj_filt in (None, *itertools.product((-1, 0, 1), repeat=k_n)):
        for con_filt in (None, *itertools.product((-1, 0, 1), repeat=c_n)):
            for mode, nans in itertools.product(("alone", "combined", "batch"), ([], [(1, 0)], [(3, k_n)])):
                case = {
                    "n": n, "R": r_n, "K": k_n, "C": c_n, "weights": [1.0, 2.0, 3.0, 0.5], "obj_weights": [1.0, 0.5][:k_n],
                    "estimators": ["mean", "stddev"] if item["stddev"] else ["mean"], "filters": filters, "min_success": 1,
                    "obj_est": [i % 2 for i in range(k_n)] if item["stddev"] else None, "con_est": [(i + 1) % 2 for i in range(c_n)] if item["stddev"] else None,
                    "obj_filt": None if obj_filt is None else list(obj_filt), "con_filt": None if con_filt is None else list(con_filt),
                    "slopes": [0.25 * (((7 * i) % 11) - 5) for i in range(r_n * (k_n + c_n) * n)],
                    "offsets": [0.5 * (((5 * i) % 13) - 6) for i in range(r_n * (k_n + c_n))],
                    "nans": list(nans), "xs": [[1.0, -0.5]] if mode != "batch" else [[1.0, -0.5], [0.0, 2.0]], "single": mode != "batch",
                    "meta_col": None, "combined": mode == "combined", "pmin": 2, "pert_nans": [], "later_nans": [] if nans else None,
                }
                info: dict[str, Any] = {}

                def go(case: dict[str, Any] = case, info: dict[str, Any] = info) -> None:
                    info.update(run_case(case))

                guard_call(col, case, go)
                col.case((k_n, c_n, item["stddev"], obj_filt, con_filt, mode, tuple(nans)), nontrivial=not info.get("aborted", True),
                         classes=("filter-map-grid", f"mode={mode}", "failures" if nans else "no-failures",
                                  "aborted" if info.get("aborted", True) else "value"), sample=case)
    col.extra["exhaustive"] = True
    return col


def shards(tier: str, seed: int) -> list[dict[str, Any]]:
    nshard = 8 if tier == "quick" else 16
    examples = 150 if tier == "quick" else 4000
    grid = [{"kind": "grid", "K": k_n, "C": c_n, "stddev": sd} for k_n in (1, 2) for c_n in (1, 2) for sd in (False, True)]
    return [*grid, *({"seed": seed * 1000 + i, "examples": examples} for i in range(nshard))]


def run_shard(item: dict[str, Any]) -> Collector:
    return grid_shard(item) if item.get("kind") == "grid" else hypothesis_shard(item)


def replay(case: dict[str, Any]) -> None:
    case = dict(case)
    case["nans"] = [tuple(x) for x in case["nans"]]
    case["pert_nans"] = [tuple(x) for x in case.get("pert_nans") or []]
    run_case(case)
