"""C07 - Values handed to the optimizer match the ensemble for any request order."""

from __future__ import annotations

import itertools
from typing import Any

import numpy as np
from scipy.optimize import NonlinearConstraint

from harness.core import Collector, check, guard_call, run_hypothesis
from harness.ropt_util import AffineEvaluator, DesignSamplerPlugin
from harness.scipy_capture import Captured, capture
from ropt.config.enopt import EnOptConfig
from ropt.ensemble_evaluator import EnsembleEvaluator
from ropt.enums import EventType, OptimizerExitCode
from ropt.plan import OptimizerContext, Plan
from ropt.plugins import PluginManager
from ropt.plugins.optimizer.scipy import SciPyOptimizer
from ropt.results import FunctionResults, GradientResults

ID = "C07"
LEVEL = "model_checking"
RULE = (
    "Layer A (plug-in alone): the callables the SciPy plug-in hands to minimize / differential_evolution are captured "
    "and driven by the harness acting as the algorithm: all request sequences of length <=3 (quick) / <=4 (thorough) "
    "over {objective, gradient, constraint value k, constraint Jacobian k} x pool of 3 points (two far apart, one "
    "identical copy) - batches of 1-2 pool points for vectorized differential evolution - x speculative x start vector (configuration | run_step(variables=)) x "
    "split_evaluations x {no, non-linear, linear, both} constraints x {slsqp, l-bfgs-b, cobyla, nelder-mead, DE serial, "
    "DE vectorized}. Oracle: every returned value equals the value at that point (truth function / fresh instance), "
    "a second start() of the same instance on a changed problem serves nothing from the first run (length <=2), "
    "current-point model of the callback invocations (nothing evaluated twice at the current point, no gradients for "
    "gradient-free methods, split never asks for both, speculative changes no value). Layer B (full stack, Hypothesis): "
    "the same grammar (length <=8) through Plan -> EnsembleOptimizer -> plug-in with a recording evaluator. "
    "Non-trivial: the sequence changes point at least once and a constraint or gradient request comes first at a new point."
)
ASSUMPTIONS = [
    "distinct pool points differ by far more than 1e-3(1+|x|); the third pool point is an equal copy of the first",
    "expected constraint values/Jacobians come from a fresh plug-in instance asked once at that point (C08 decides the normalization itself)",
    "layer B uses a fixed injected design, so ensemble gradients are a deterministic function of the point",
]

POOL = [np.array([0.3, -0.4, 0.8]), np.array([1.5, 0.9, -0.6]), np.array([0.3, -0.4, 0.8])]
# (layer B only) a point close to POOL[0], but four times further away than the separation 1e-3 (1 + |x|) of the property:
POOL.append(POOL[0] + 4e-3 * (1.0 + np.abs(POOL[0])))
START = np.array([-0.7, 1.1, 0.2])  # start vector handed to run_step(variables=) instead of the configured initial values
TARGET = np.array([0.5, 0.1, -0.2])
A_NL = np.array([[1.0, -2.0, 0.5]])
A_LIN = [[1.0, 1.0, 0.0]]
METHOD_SPECS = {
    "slsqp": {"method": "slsqp", "parallel": False},
    "l-bfgs-b": {"method": "l-bfgs-b", "parallel": False},
    "cobyla": {"method": "cobyla", "parallel": False},
    "nelder-mead": {"method": "nelder-mead", "parallel": False},
    "de": {"method": "differential_evolution", "parallel": False},
    "de-vec": {"method": "differential_evolution", "parallel": True},
}
GRADIENT_FREE = {"cobyla", "nelder-mead", "de", "de-vec"}
CONSTRAINT_CAPABLE = {"slsqp", "cobyla", "de", "de-vec"}


def truth_f(x: np.ndarray) -> np.ndarray:
    return np.concatenate([[np.sum((x - TARGET) ** 2)], A_NL @ x + 0.1 * np.sum(x * x)])


def truth_g(x: np.ndarray) -> np.ndarray:
    return np.vstack([2 * (x - TARGET), A_NL + 0.2 * x])


def config_for(mname: str, cons: str, speculative: bool, split: bool) -> EnOptConfig:  # noqa: FBT001
    spec = METHOD_SPECS[mname]
    # half of the (constraints, split) combinations write the method plug-in qualified: 'scipy/<method>'
    method = "scipy/" + spec["method"] if (len(cons) + split) % 2 else spec["method"]
    cfg: dict[str, Any] = {
        "variables": {"initial_values": POOL[0].tolist()},
        "optimizer": {"method": method, "parallel": spec["parallel"], "speculative": speculative, "split_evaluations": split},
    }
    if mname in ("slsqp", "l-bfgs-b", "nelder-mead", "de", "de-vec"):
        cfg["variables"].update({"lower_bounds": [-5.0] * 3, "upper_bounds": [5.0] * 3})
    if cons in ("nl", "both"):
        cfg["nonlinear_constraints"] = {"lower_bounds": [0.0], "upper_bounds": [1.0]}
    if cons in ("lin", "both"):
        cfg["linear_constraints"] = {"coefficients": A_LIN, "lower_bounds": [-1.0], "upper_bounds": [np.inf]}
    return EnOptConfig.model_validate(cfg)


_EXPECTED: dict[Any, Any] = {}


class Recorder:
    """Pure callback F(x), G(x) that records its invocations."""

    def __init__(self, n_con: int, phase: float = 0.0) -> None:  # noqa: D107
        self.n_con = n_con
        self.phase = phase  # a constant added to every function value: a "different problem" for a restarted optimizer
        self.calls: list[tuple[np.ndarray, bool, bool]] = []

    def __call__(self, variables: np.ndarray, *, return_functions: bool, return_gradients: bool) -> tuple[np.ndarray, np.ndarray]:
        self.calls.append((np.array(variables, copy=True), return_functions, return_gradients))
        f = np.array([])
        g = np.array([])
        if return_functions:
            f = truth_f(variables)[: 1 + self.n_con] if variables.ndim == 1 else np.array([truth_f(v)[: 1 + self.n_con] for v in variables])
            f = f + self.phase
        if return_gradients:  # (a batch with gradients is itself a violation; the oracle reports it from the record)
            g = truth_g(variables if variables.ndim == 1 else variables[0])[: 1 + self.n_con]
        return f, g


def requests_for(mname: str, kw: dict[str, Any]) -> list[tuple[str, int]]:
    reqs = [("f", 0)]
    if mname not in GRADIENT_FREE:
        reqs.append(("g", 0))
    for k, con in enumerate(kw.get("constraints") or []):
        if isinstance(con, dict):
            reqs.append(("c", k))
            if "jac" in con:
                reqs.append(("J", k))
        elif isinstance(con, NonlinearConstraint):
            reqs.append(("c", k))
    return reqs


def issue(mname: str, kw: dict[str, Any], req: tuple[str, int], pts: list[int], buffers: dict[Any, np.ndarray] | None = None) -> np.ndarray:
    kind, k = req
    if mname == "de-vec":
        x = np.array([POOL[i] for i in pts]).T.copy()  # (n, S)
    else:
        x = POOL[pts[0]].copy()
    if buffers is not None:
        # the algorithm owns one array per shape and overwrites it in place for every new point / population
        if x.shape in buffers:
            buffers[x.shape][...] = x
            x = buffers[x.shape]
        else:
            buffers[x.shape] = x
    if kind == "f":
        return np.asarray(kw["func" if mname.startswith("de") else "fun"](x), dtype=np.float64)
    if kind == "g":
        return np.asarray(kw["jac"](x), dtype=np.float64)
    con = kw["constraints"][k]
    if kind == "c":
        return np.asarray((con["fun"] if isinstance(con, dict) else con.fun)(x), dtype=np.float64)
    return np.asarray(con["jac"](x), dtype=np.float64)


def run_plugin(cfg: EnOptConfig, mname: str, n_con: int, sequence: list[Any], phase: float = 0.0,
               restart: list[Any] | None = None) -> tuple[list[Any], Recorder, list[int]]:
    """Drive a fresh plug-in instance through `sequence`; returns (returned values, recorder, #invocations before each request).

    With `restart` the same instance is started a second time (the problem changes by a constant in between) and driven
    through `restart`; the values of the second run are appended.
    """
    rec = Recorder(n_con, phase)
    out: list[Any] = []
    marks: list[int] = []
    current = {"seq": sequence}

    def driver(cap: Captured) -> None:
        reqs = requests_for(mname, cap.kwargs)
        buffers: dict[Any, np.ndarray] = {}
        for req_i, pts in current["seq"]:
            marks.append(len(rec.calls))
            val = issue(mname, cap.kwargs, reqs[req_i], pts, buffers)
            out.append(np.array(val, copy=True))
            if val.ndim and val.flags.writeable:
                val[...] = 2.0 * val + 1.0  # what the algorithm received is its own: it goes on computing with it in place
        marks.append(len(rec.calls))

    with capture(driver):
        optimizer = SciPyOptimizer(cfg, rec)
        optimizer.start(POOL[0].copy())
        if restart is not None:
            rec.phase = phase + 7.5
            current["seq"] = restart
            optimizer.start(POOL[0].copy())
    return out, rec, marks


def run_restart(case: dict[str, Any]) -> None:
    """A second start() of the same optimizer object must not serve anything kept from the first run."""
    mname, cons, split = case["method"], case["cons"], case["split"]
    n_con = 1 if cons in ("nl", "both") else 0
    seq = [(r, list(p)) for r, p in case["sequence"]]
    cfg = config_for(mname, cons, False, split)
    out, _, _ = run_plugin(cfg, mname, n_con, seq, restart=seq)
    second = out[len(seq):]
    with capture() as cap:
        SciPyOptimizer(cfg, Recorder(n_con)).start(POOL[0].copy())
    reqs = requests_for(mname, cap.kwargs)
    for i, (req_i, pts) in enumerate(seq):
        key = ("restart", mname, cons, split, req_i, tuple(pts))
        if key not in _EXPECTED:
            _EXPECTED[key] = run_plugin(cfg, mname, n_con, [(req_i, pts)], phase=7.5)[0]
        exp = _EXPECTED[key]
        kind = reqs[req_i][0]
        check(np.shape(second[i]) == np.shape(exp[0]) and bool(np.allclose(second[i], exp[0], rtol=1e-12, atol=1e-12)),
              "stale-after-restart", f"second start(), request #{i} {kind}{reqs[req_i][1]} at pool {pts}: returned "
              f"{np.asarray(second[i]).tolist()}, the value of the (changed) problem at that point is {np.asarray(exp[0]).tolist()}", case)


def expected_value(key: tuple[Any, ...], cfg: EnOptConfig, mname: str, n_con: int, req_i: int, pts: list[int]) -> np.ndarray:
    k = (*key, req_i, tuple(pts))
    if k not in _EXPECTED:
        out, _, _ = run_plugin(cfg, mname, n_con, [(req_i, pts)])
        _EXPECTED[k] = out[0]
    return _EXPECTED[k]


def same_point(a: list[int], b: list[int] | None) -> bool:
    if b is None or len(a) != len(b):
        return False
    return all(np.array_equal(POOL[i], POOL[j]) for i, j in zip(a, b))


def run_sequence(case: dict[str, Any]) -> dict[str, Any]:  # noqa: C901, PLR0912
    mname, cons, split = case["method"], case["cons"], case["split"]
    n_con = 1 if cons in ("nl", "both") else 0
    seq = [(r, list(p)) for r, p in case["sequence"]]
    results = {}
    info = {"new_point_first": False, "changes": 0}
    for speculative in (False, True):
        cfg = config_for(mname, cons, speculative, split)
        key = (mname, cons, split)
        out, rec, marks = run_plugin(cfg, mname, n_con, seq)
        results[speculative] = out
        with capture() as cap:
            SciPyOptimizer(cfg, Recorder(n_con)).start(POOL[0].copy())
        reqs = requests_for(mname, cap.kwargs)
        cur: list[int] | None = None
        have_f = have_g = False
        for i, (req_i, pts) in enumerate(seq):
            kind = reqs[req_i][0]
            label = f"request #{i} {kind}{reqs[req_i][1]} at pool {pts} (speculative={speculative})"
            # ---- value belongs to this point
            x = np.array([POOL[j] for j in pts]).T if mname == "de-vec" else POOL[pts[0]]
            if kind == "f":
                exp = np.array([truth_f(POOL[j])[0] for j in pts]) if mname == "de-vec" else truth_f(x)[0]
                check(bool(np.allclose(out[i], exp, rtol=1e-12, atol=1e-12)), "stale-objective",
                      f"{label}: objective {np.asarray(out[i]).tolist()} != value at that point {np.asarray(exp).tolist()}", case)
            elif kind == "g":
                check(bool(np.allclose(out[i], truth_g(x)[0], rtol=1e-12, atol=1e-12)), "stale-gradient",
                      f"{label}: gradient {out[i].tolist()} != gradient at that point {truth_g(x)[0].tolist()}", case)
            else:
                exp = expected_value((*key, False), config_for(mname, cons, False, split), mname, n_con, req_i, pts)
                check(np.shape(out[i]) == np.shape(exp) and bool(np.allclose(out[i], exp, rtol=1e-12, atol=1e-12)),
                      "stale-constraint" if kind == "c" else "stale-jacobian",
                      f"{label}: returned {np.asarray(out[i]).tolist()}, a fresh instance asked at that point returns {np.asarray(exp).tolist()}", case)
            # ---- current-point model of the callback invocations
            if not same_point(pts, cur):
                if cur is not None:
                    info["changes"] += 1
                    if kind != "f":
                        info["new_point_first"] = True
                cur, have_f, have_g = pts, False, False
            for xv, rf, rg in rec.calls[marks[i]:marks[i + 1]]:
                exp_x = np.array([POOL[j] for j in pts]) if mname == "de-vec" else POOL[pts[0]]
                check(bool(np.allclose(np.atleast_2d(xv), np.atleast_2d(exp_x))), "callback-point",
                      f"{label}: callback invoked at {xv.tolist()}, not at the requested point", case)
                check(not (rg and mname in GRADIENT_FREE), "gradient-for-gradient-free",
                      f"{label}: gradient-free method {mname} made the callback evaluate gradients", case)
                check(not (split and rf and rg), "split-both", f"{label}: split_evaluations but one invocation asks for functions and gradients", case)
                check(not (rf and have_f), "function-evaluated-twice", f"{label}: functions evaluated again at the current point", case)
                check(not (rg and have_g), "gradient-evaluated-twice", f"{label}: gradients evaluated again at the current point", case)
                have_f, have_g = have_f or rf, have_g or rg
    for i, (a, b) in enumerate(zip(results[False], results[True])):
        check(bool(np.array_equal(a, b)), "speculative-changes-value", f"request #{i}: value differs with speculative on/off: {a} vs {b}", case)
    return info


def exhaustive_shard(item: dict[str, Any]) -> Collector:
    col = Collector(ID)
    mname, cons, split = item["method"], item["cons"], item["split"]
    n_con = 1 if cons in ("nl", "both") else 0
    with capture() as cap:
        SciPyOptimizer(config_for(mname, cons, False, split), Recorder(n_con)).start(POOL[0].copy())
    n_req = len(requests_for(mname, cap.kwargs))
    batches = [[0], [1], [2]] if mname != "de-vec" else [[0], [1], [0, 1], [1, 0], [0, 2], [2]]
    alphabet = [(r, b) for r in range(n_req) for b in batches]
    states = transitions = 0
    for length in range(1, item["max_len"] + 1):
        for s_idx, seq in enumerate(itertools.product(alphabet, repeat=length)):
            if s_idx % item.get("parts", 1) != item.get("part", 0):
                continue
            case = {"layer": "A", "method": mname, "cons": cons, "split": split, "sequence": [[r, b] for r, b in seq]}
            info: dict[str, Any] = {}

            def go(case: dict[str, Any] = case, info: dict[str, Any] = info) -> None:
                info.update(run_sequence(case))

            guard_call(col, case, go)
            if length <= 2:  # noqa: PLR2004
                rcase = {**case, "restart": True}
                guard_call(col, rcase, lambda rcase=rcase: run_restart(rcase))
            states += 1
            transitions += 2 * length
            col.case((mname, cons, split, seq), nontrivial=bool(info.get("new_point_first")),
                     classes=(f"method={mname}", f"cons={cons}", "split" if split else "combined", f"len={length}"), sample=case)
    col.extra.update({"exhaustive": True, "states": states, "transitions": transitions, "traces_validated_against_impl": states})
    return col


# ----------------------------------------------------------------------------
# Layer B: full stack
# ----------------------------------------------------------------------------
class FailingAt(AffineEvaluator):
    """Every realization fails (NaN) for the rows that evaluate one designated pool point."""

    def __init__(self, *args: Any, point: np.ndarray, mask: np.ndarray, only_first: bool = False, **kwargs: Any) -> None:  # noqa: ANN401, D107, FBT001, FBT002
        super().__init__(*args, **kwargs)
        self.point, self.mask, self.only_first = point, mask, only_first

    def __call__(self, variables: np.ndarray, context: Any) -> Any:  # noqa: ANN401
        result = super().__call__(variables, context)
        rows = np.all(np.abs(np.asarray(variables)[:, self.mask] - self.point[self.mask]) <= 1e-9, axis=1)  # noqa: PLR2004
        if self.only_first:  # (only realization 0 fails there: the others give the value)
            rows &= np.asarray(context.realizations) == 0
        result.objectives[rows, :] = np.nan
        return result


def stack_evaluator(case: dict[str, Any]) -> AffineEvaluator:
    r_n = len(case["weights"])
    n_con = 1 if case["cons"] in ("nl", "both") else 0
    a = np.array(case["slopes"], dtype=np.float64).reshape(r_n, 1 + n_con, 3)
    b = np.array(case["offsets"], dtype=np.float64).reshape(r_n, 1 + n_con)
    args = (a[:, :1], b[:, :1], a[:, 1:] if n_con else None, b[:, 1:] if n_con else None)
    if case.get("fail_at") is None:
        return AffineEvaluator(*args, quad=0.3)
    return FailingAt(*args, quad=0.3, point=POOL[case["fail_at"]], only_first=case["method"] not in ("de", "de-vec"),
                     mask=np.ones(3, dtype=bool) if case["mask"] is None else np.array(case["mask"], dtype=bool))


def stack_config(case: dict[str, Any]) -> dict[str, Any]:
    spec = METHOD_SPECS[case["method"]]
    cfg: dict[str, Any] = {
        "variables": {"initial_values": POOL[0].tolist(), "lower_bounds": [-5.0] * 3, "upper_bounds": [5.0] * 3},
        "optimizer": {"method": ("scipy/" + spec["method"]) if case.get("qualified") else spec["method"], "parallel": spec["parallel"],
                      "speculative": case["speculative"], "split_evaluations": case["split"]},
        "realizations": {"weights": case["weights"]},
        "gradient": {"number_of_perturbations": 3, "perturbation_magnitudes": 0.01, "boundary_types": 1},
        "samplers": [{"method": "design/fixed"}],
    }
    if case["method"] == "cobyla":
        del cfg["variables"]["lower_bounds"], cfg["variables"]["upper_bounds"]
    if case.get("fail_at") is not None:
        # (DE: a point where everything fails is a point with the value +inf; other methods: one realization fails there and the
        # others give the value)
        cfg["realizations"]["realization_min_success"] = 0 if case["method"] in ("de", "de-vec") else 1
    if case.get("tolerance") is not None:  # the convergence tolerance of the algorithm says nothing about which points are the same
        cfg["optimizer"]["tolerance"] = case["tolerance"]
    if case["cons"] in ("nl", "both"):
        cfg["nonlinear_constraints"] = {"lower_bounds": [0.0], "upper_bounds": [1.0]}
    if case["cons"] in ("lin", "both"):
        cfg["linear_constraints"] = {"coefficients": A_LIN, "lower_bounds": [-1.0], "upper_bounds": [np.inf]}
    if case["mask"] is not None:
        cfg["variables"]["mask"] = case["mask"]
    return cfg


def run_stack(case: dict[str, Any], sequence: list[Any]) -> tuple[list[Any], AffineEvaluator, list[Any], list[int]]:
    r_n = len(case["weights"])
    n_con = 1 if case["cons"] in ("nl", "both") else 0
    a = np.array(case["slopes"], dtype=np.float64).reshape(r_n, 1 + n_con, 3)
    b = np.array(case["offsets"], dtype=np.float64).reshape(r_n, 1 + n_con)
    ev = stack_evaluator(case)
    manager = PluginManager()
    design = np.array([[[1.0, 0.0, 0.0], [0.0, 1.0, 0.0], [0.0, 0.0, 1.0]]] * r_n)
    manager.add_plugin("sampler", "design", DesignSamplerPlugin([design]))
    ctx = OptimizerContext(evaluator=ev, plugin_manager=manager)
    events: list[Any] = []
    ctx.add_observer(EventType.FINISHED_EVALUATION, lambda e: events.append((len(ev.calls), e.data["results"])))
    plan = Plan(ctx)
    step = plan.add_step("optimizer")
    out: list[Any] = []
    marks: list[int] = []
    mask = np.ones(3, dtype=bool) if case["mask"] is None else np.array(case["mask"], dtype=bool)

    def driver(cap: Captured) -> None:
        reqs = requests_for(case["method"], cap.kwargs)
        for req_i, pts in sequence:
            marks.append(len(ev.calls))
            req = reqs[req_i % len(reqs)]
            kind, k = req
            x = (np.array([POOL[i][mask] for i in pts]).T.copy() if case["method"] == "de-vec" else POOL[pts[0]][mask].copy())
            kw = cap.kwargs
            if kind == "f":
                val = kw["func" if case["method"].startswith("de") else "fun"](x)
            elif kind == "g":
                val = kw["jac"](x)
            elif kind == "c":
                con = kw["constraints"][k]
                val = (con["fun"] if isinstance(con, dict) else con.fun)(x)
            else:
                val = kw["constraints"][k]["jac"](x)
            out.append((kind, k, np.asarray(val, dtype=np.float64)))
        marks.append(len(ev.calls))

    with capture(driver):
        code = plan.run_step(step, config=stack_config(case), variables=START.copy() if case.get("start") else None)
    check(code == OptimizerExitCode.OPTIMIZER_STEP_FINISHED, "harness", f"exit code {code}", case)
    return out, ev, events, marks


def run_stack_case(case: dict[str, Any]) -> dict[str, Any]:  # noqa: C901, PLR0912
    seq = [(r, list(p)) for r, p in case["sequence"]]
    out, ev, events, marks = run_stack(case, seq)
    mask = np.ones(3, dtype=bool) if case["mask"] is None else np.array(case["mask"], dtype=bool)
    info = {"new_point_first": False, "changes": 0}
    cfg = EnOptConfig.model_validate(stack_config(case))

    def full(i: int) -> np.ndarray:
        x = (START if case.get("start") else POOL[0]).copy()  # fixed entries keep the values the step was started with
        x[mask] = POOL[i][mask]
        return x

    cur: list[int] | None = None
    have_f = have_g = False
    for i, ((req_i, pts), (kind, k, val)) in enumerate(zip(seq, out)):
        label = f"request #{i} {kind}{k} at pool {pts}"
        # values: objective and gradient against a fresh EnsembleEvaluator, constraints against a fresh stack
        if kind in ("f", "g"):
            exp = []
            for j in pts:
                r_n = len(case["weights"])
                n_con = 1 if case["cons"] in ("nl", "both") else 0
                a = np.array(case["slopes"], dtype=np.float64).reshape(r_n, 1 + n_con, 3)
                b = np.array(case["offsets"], dtype=np.float64).reshape(r_n, 1 + n_con)
                ev2 = stack_evaluator(case)
                mgr = PluginManager()
                mgr.add_plugin("sampler", "design", DesignSamplerPlugin([np.array([[[1.0, 0, 0], [0, 1.0, 0], [0, 0, 1.0]]] * r_n)]))
                res = EnsembleEvaluator(cfg, None, ev2, mgr).calculate(full(j), compute_functions=True, compute_gradients=kind == "g")
                if kind == "f":
                    failing = (case.get("fail_at") is not None and case["method"] in ("de", "de-vec")
                               and bool(np.array_equal(full(j)[mask], full(case["fail_at"])[mask])))
                    exp.append(float("inf") if failing else float(res[0].functions.weighted_objective))
                else:
                    exp.append(np.asarray(res[1].gradients.weighted_objective)[mask])
            expv = np.array(exp) if case["method"] == "de-vec" else np.asarray(exp[0])
            check(np.shape(val) == np.shape(expv) and bool(np.allclose(val, expv, rtol=1e-10, atol=1e-12) and np.array_equal(np.isinf(val), np.isinf(expv))),
                  "stale-objective" if kind == "f" else "stale-gradient",
                  f"{label}: returned {val.tolist()}, the ensemble value at that point is {expv.tolist()}", case)
        else:
            fresh, _, _, _ = run_stack(case, [(req_i, pts)])
            check(np.shape(val) == np.shape(fresh[0][2]) and bool(np.allclose(val, fresh[0][2], rtol=1e-10, atol=1e-12, equal_nan=False)
                                                                   and np.array_equal(np.isinf(val), np.isinf(fresh[0][2]))),
                  "stale-constraint" if kind == "c" else "stale-jacobian",
                  f"{label}: returned {val.tolist()}, a fresh run asked at that point returns {fresh[0][2].tolist()}", case)
        if not same_point(pts, cur) and not (cur is not None and all(np.array_equal(full(a_), full(b_)) for a_, b_ in zip(pts, cur)) and len(pts) == len(cur)):
            if cur is not None:
                info["changes"] += 1
                if kind != "f":
                    info["new_point_first"] = True
            cur, have_f, have_g = pts, False, False
        for call in ev.calls[marks[i]:marks[i + 1]]:
            perts = call["perturbations"]
            has_f, has_g = bool(np.any(perts < 0)), bool(np.any(perts >= 0))
            check(not (has_g and case["method"] in GRADIENT_FREE), "gradient-for-gradient-free",
                  f"{label}: perturbations evaluated for gradient-free method {case['method']}", case)
            check(not (case["split"] and has_f and has_g), "split-both", f"{label}: split_evaluations but one evaluation holds functions and perturbations", case)
            check(not (has_f and have_f), "function-evaluated-twice", f"{label}: functions evaluated again at the current point", case)
            check(not (has_g and have_g), "gradient-evaluated-twice", f"{label}: gradients evaluated again at the current point", case)
            have_f, have_g = have_f or has_f, have_g or has_g
    for ncalls, results in events:
        del ncalls
        kinds = {type(r) for r in results}
        check(not (case["split"] and FunctionResults in kinds and GradientResults in kinds), "split-both",
              "split_evaluations but one FINISHED_EVALUATION delivers function and gradient results", case)
    return info


def hypothesis_shard(item: dict[str, Any]) -> Collector:
    from hypothesis import strategies as st

    col = Collector(ID)

    @st.composite
    def cases(draw: Any) -> dict[str, Any]:  # noqa: ANN401
        mname = draw(st.sampled_from(list(METHOD_SPECS)))
        cons = draw(st.sampled_from(["none", "nl", "lin", "both"])) if mname in CONSTRAINT_CAPABLE else "none"
        r_n = draw(st.integers(1, 3))
        n_con = 1 if cons in ("nl", "both") else 0
        batches = [[0], [1], [2], [3]] if mname != "de-vec" else [[0], [1], [0, 1], [1, 0], [0, 2], [3], [3, 1], [0, 3]]
        seq = [[draw(st.integers(0, 5)), draw(st.sampled_from(batches))] for _ in range(draw(st.integers(1, 8)))]
        mask = draw(st.sampled_from([None, None, [True, False, True], [False, True, True]]))
        if cons in ("lin", "both") and mask is not None and not mask[0]:
            mask = None
        return {"layer": "B", "method": mname, "cons": cons, "split": draw(st.booleans()), "speculative": draw(st.booleans()),
                "weights": [draw(st.sampled_from([1.0, 2.0])) for _ in range(r_n)], "mask": mask, "start": draw(st.booleans()), "qualified": draw(st.booleans()),
                "tolerance": draw(st.sampled_from([None, None, 1e-6, 0.05])),
                "fail_at": 1 if (mname in ("de", "de-vec") or r_n > 1) and draw(st.booleans()) else None,
                "slopes": [draw(st.sampled_from([-1.0, 0.5, 1.0, 2.0])) for _ in range(r_n * (1 + n_con) * 3)],
                "offsets": [draw(st.sampled_from([-0.5, 0.0, 1.0])) for _ in range(r_n * (1 + n_con))], "sequence": seq}

    def body(case: dict[str, Any]) -> None:
        info = run_stack_case(case)
        col.case(case, nontrivial=info["new_point_first"], classes=(
            "layer-B", f"method={case['method']}", f"cons={case['cons']}", "split" if case["split"] else "combined",
            "speculative" if case["speculative"] else "plain", "masked" if case["mask"] else "unmasked",
            "start=argument" if case.get("start") else "start=config", f"tolerance={case.get('tolerance')}",
            "close-points" if any(3 in p_ for _, p_ in case["sequence"]) else "far-points",
            ("all-realizations-fail-at-one-point" if case["method"] in ("de", "de-vec") else "one-realization-fails-at-one-point") if case.get("fail_at") is not None else "no-failures"))

    run_hypothesis(col, cases(), body, seed=item["seed"], max_examples=item["examples"])
    return col


def shards(tier: str, seed: int) -> list[dict[str, Any]]:
    items: list[dict[str, Any]] = []
    max_len = 3 if tier == "quick" else 4
    for mname in METHOD_SPECS:
        for cons in (["none", "nl", "lin", "both"] if mname in CONSTRAINT_CAPABLE else ["none"]):
            for split in (False, True):
                parts = 6 if (mname == "slsqp" and cons in ("nl", "both")) else (3 if mname in ("slsqp", "de-vec", "cobyla") and cons != "none" else 1)
                if tier != "quick":
                    parts *= 4
                items.extend({"kind": "exh", "method": mname, "cons": cons, "split": split, "max_len": max_len, "part": i, "parts": parts}
                             for i in range(parts))
    nshard = 8 if tier == "quick" else 16
    examples = 60 if tier == "quick" else 1500
    items.extend({"kind": "hyp", "seed": seed * 1000 + i, "examples": examples} for i in range(nshard))
    items.sort(key=lambda it: 0 if it.get("method") in ("slsqp", "de-vec") and it.get("cons") == "both" else 1)
    return items


def run_shard(item: dict[str, Any]) -> Collector:
    return exhaustive_shard(item) if item["kind"] == "exh" else hypothesis_shard(item)


def replay(case: dict[str, Any]) -> None:
    if case.get("layer") == "B":
        run_stack_case(case)
    elif case.get("restart"):
        run_restart(case)
    else:
        run_sequence(case)
