#!/bin/sh
# usage: tools/try_patch.sh <patch.diff> <ID> [ID...]   -- apply a seeded change to /repo, run quick checks, undo
patch="$(realpath "$1")"; shift
cd /verif || exit 2
if [ -n "$(git -C /repo status --porcelain)" ]; then echo "REFUSING: /repo has uncommitted changes"; exit 4; fi
if ! git -C /repo apply --check "$patch" 2>/dev/null; then echo "PATCH DOES NOT APPLY: $patch"; exit 3; fi
git -C /repo apply "$patch"
for id in "$@"; do
  ./check "$id" --tier "${TIER:-quick}" 2>&1 | grep -E "VIOLATION|tier=|HARNESS|^  " | cut -c1-300
done
git -C /repo checkout -- .
[ -n "$KEEP_NEW" ] || rm -f replays/*/new-*.json; git -C /verif checkout -- evidence 2>/dev/null
git -C /repo status --short | head -3
