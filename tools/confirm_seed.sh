#!/bin/sh
# usage: tools/confirm_seed.sh <PROP> <VARIANT> <srcdir>  (srcdir holds patch.diff, demo.py, notes.md)
# Confirms in a scratch worktree of /repo HEAD: demo passes clean, fails with patch, test-suite passes with patch.
# On success copies into /verif/seeded/<PROP>-<VARIANT>/ and writes meta.json (without the detection result).
prop="$1"; var="$2"; src="$3"
wt=/tmp/wt/confirm-$prop-$var
rm -rf "$wt"; git -C /repo worktree prune
git -C /repo worktree add -f "$wt" HEAD >/dev/null 2>&1 || { echo "cannot create worktree"; exit 2; }
run() { (cd "$wt" && PYTHONPATH="$wt/src" PATH=/venv/bin:$PATH timeout 900 "$@"); }
status="ok"
run /venv/bin/python "$src/demo.py" >/tmp/wt/confirm.log 2>&1; clean_rc=$?
if ! git -C "$wt" apply --check "$src/patch.diff" 2>/dev/null; then status="patch-does-not-apply"; fi
if [ "$status" = ok ]; then
  git -C "$wt" apply "$src/patch.diff"
  run /venv/bin/python "$src/demo.py" >/tmp/wt/confirm2.log 2>&1; mut_rc=$?
  tests=$(run /venv/bin/python -m pytest -q -p no:cacheprovider 2>&1 | tail -1)
  [ "$clean_rc" = 0 ] || status="demo-fails-on-clean-tree"
  [ "$mut_rc" != 0 ] || status="demo-passes-with-patch"
  echo "$tests" | grep -q "209 passed" || status="tests-fail-with-patch: $tests"
fi
echo "$prop-$var: $status (demo clean rc=$clean_rc, mutated rc=$mut_rc, tests: $tests)"
if [ "$status" = ok ]; then
  dst=/verif/seeded/$prop-$var; mkdir -p "$dst"
  cp "$src/patch.diff" "$dst/patch.diff"; cp "$src/demo.py" "$dst/demo.py"; [ -f "$src/notes.md" ] && cp "$src/notes.md" "$dst/notes.md"
  /venv/bin/python - "$prop" "$var" "$dst" "$tests" <<'PY'
import json,sys,subprocess
prop,var,dst,tests=sys.argv[1:5]
head=subprocess.run(["git","-C","/repo","rev-parse","--short","HEAD"],capture_output=True,text=True).stdout.strip()
notes=open(dst+"/notes.md").read() if __import__("os").path.exists(dst+"/notes.md") else ""
meta={"breaks_property":prop,"variant":var,"origin":"independent sub-agent given only the property text and a scratch worktree",
 "base_commit":head,
 "needs_to_manifest":"see notes.md",
 "confirmed":{"demo_on_clean_tree":"exit 0","demo_with_patch":"non-zero exit","test_suite_with_patch":tests,
   "how":"tools/confirm_seed.sh: scratch git worktree of /repo HEAD under /tmp, PYTHONPATH=<worktree>/src"}}
json.dump(meta,open(dst+"/meta.json","w"),indent=1)
PY
fi
git -C /repo worktree remove --force "$wt"
