#!/usr/bin/env python3
"""Regenerate MANIFEST.json from the table below (run from /verif)."""

import json
from pathlib import Path

ROOT = Path(__file__).resolve().parent.parent

# id -> (category, technique, level text, level note, design ref)
CHECKS = {
    "C04": (
        "exploration",
        "exhaustive enumeration (masks x permutations x percentile grid) + Hypothesis; exact rational reference model",
        "Every failure mask x value permutation x percentile-grid point (incl. +-1 ulp around k/(2m) and j/20) for n<=5 (quick) / n<=7 (thorough), "
        "all five bound flavours, is compared with an exact Fraction staircase; Hypothesis adds n<=40, ties, weighted multi-objective keys and "
        "end-to-end EnsembleEvaluator runs (reported value = CVaR tail mean). Complete inside the stated bounds, sampled beyond.",
        "Trusts numpy argsort and Python Fraction; filter is called with caller-guaranteed all-NaN failed rows; tolerance 1e-12, zeros/signs exact.",
        "DESIGN.md §3 C04",
    ),
    "C05": (
        "exploration",
        "exhaustive enumeration (permutations x masks x windows) + Hypothesis; tie-robust validity predicate and exact reference weights",
        "All permutations of distinct sort keys x all failure masks x all windows for n<=5 (quick) / n<=6 (thorough) for sort-objective and "
        "sort-constraint with non-uniform configured weights; Hypothesis adds zero weights, ties, weighted multi-objective keys, invalid windows "
        "(must be rejected before any evaluator call) and 2-3 filters mapped with -1 entries onto several objectives/constraints through "
        "EnsembleEvaluator (reported weight rows must equal an independently computed selection). Complete inside the bounds, sampled beyond.",
        "Trusts numpy sort; failed rows are all-NaN as the caller guarantees; keys closer than 1e-9 are ties (either order accepted); rows of "
        "unmapped functions are decided by C01.",
        "DESIGN.md §3 C05",
    ),
    "C17": (
        "exploration",
        "Hypothesis over sampler configurations; differential against identically seeded scipy.stats.qmc engines + structural predicates",
        "Random configurations of all six built-in methods x shapes x masks x 1-3 samplers on disjoint variables x shared x seeds x 1-3 "
        "consecutive calls, both by calling the plug-in directly and through EnsembleEvaluator; checks shape, exact zeros, shared/per-realization, "
        "[-1,1] range, that the multiset of generated vectors equals the points of the reference QMC engine (continued across calls) and LHS "
        "stratification per variable. Sampled, not exhaustive.",
        "scipy.stats.qmc is the trusted reference; default sampler options; 'per realization' is checked as 'not all realizations identical'.",
        "DESIGN.md §3 C17",
    ),
    "C01": (
        "exploration",
        "Hypothesis over ensemble configurations; closed-form reference model + metamorphic relations (batch layout, unrelated columns)",
        "Random ensembles (R<=6, K<=3, C<=2) with non-uniform/zero realization and objective weights, mean/stddev estimator maps, 0-2 filters of "
        "all four kinds with -1 entries in the maps, NaN masks in any column, all realization_min_success values, single vectors and batches; every "
        "reported objective, constraint and weighted objective is recomputed by an independent formula from the evaluator's values and the weights in "
        "force, flags and the min-success gate are checked, a value must be bit-identical alone and at any batch position and must not change when "
        "only an unrelated function's values change. Sampled, not exhaustive.",
        "Filter-produced weight rows are read from the results (C04/C05 decide them); tolerance 1e-10 relative; undefined cases (no weighted success) "
        "are counted, not compared.",
        "DESIGN.md §3 C01",
    ),
    "C02": (
        "exploration",
        "Hypothesis over affine ensembles with built-in and injected design samplers; exact-gradient reference model gated by the stated conditioning predicate",
        "Affine ensembles with weights, masks, all six built-in samplers and injected deterministic designs, magnitudes, bounds/boundary types, failed "
        "perturbations/realizations, filters, mean/stddev, merged or per-realization estimation, VariableScaler, combined/split evaluation and "
        "function-then-gradient histories at the same, a nearby or a distant point; whenever the reported perturbation-difference matrices satisfy the "
        "rank/1%-energy predicate the reported gradients must equal the exact ones (mean: weighted slopes, stddev: chain rule); fixed entries must be "
        "exactly 0.0 in every case. The known merged-gradient defect is recognised by its own model and excluded so the search continues behind it.",
        "Failure flags and filter weights are read from the results (C03-C05 decide them); tolerance 1e-6*(1+max|slope|); sigma<1e-6 skipped.",
        "DESIGN.md §3 C02",
    ),
    "C03": (
        "fault_enumeration",
        "exhaustive enumeration of failure subsets x thresholds + Hypothesis; flag/gate predicates, differential run on the reduced ensemble, exact affine gradient, real SLSQP runs",
        "Every subset of the R + R*P evaluations of one function+gradient request fails (NaN in an objective, the first or the second constraint column), "
        "exhaustively for R,P<=2 (quick) / R,P<=3 (thorough) x all realization_min_success x all perturbation_min_success x mean/stddev x "
        "none/sort/cvar filter x combined/split path, sampled for R<=6, P<=8 with zero weights: failed flags and the min-success gates are predicted "
        "exactly, values are compared with the same code run on the reduced ensemble and gradients additionally with the exact affine gradient; for "
        "R*P<=4 a real SLSQP run per fault set checks TOO_FEW_REALIZATIONS and that nothing is requested afterwards.",
        "Affine ensemble + injected full-rank design; with filters, gradients are compared only if no realization fails through perturbations alone.",
        "DESIGN.md §3 C03",
    ),
    "C10": (
        "exploration",
        "Hypothesis with injected design sampler; closed-form reference model of magnitude and boundary post-processing",
        "Random bounds (finite, half-infinite, infinite), points inside them, per-variable magnitudes, ABSOLUTE/RELATIVE and NONE/TRUNCATE/MIRROR per "
        "variable, injected samples from tiny steps to overshoots of thousands of bound widths, with and without VariableScaler; the vectors received by "
        "the evaluator and the reported perturbed_variables are compared entry by entry with x + m*s post-processed by the documented rule.",
        "4 ulp tolerance (1e-12 relative with a scaler); multiply-reflected MIRROR values only need to be inside the bounds.",
        "DESIGN.md §3 C10",
    ),
    "C13": (
        "exploration",
        "Hypothesis over bound kinds; closed-form reference (v-lb, v-ub, max(lb-v, v-ub, 0)) in the user domain; tracker acceptance predicate",
        "Random points inside and outside random variable bounds with every finite/infinite mix per side, 0-3 linear and 0-3 non-linear constraints "
        "of all five bound kinds, with and without variable/objective/constraint scaling transforms, evaluated by a real evaluator step in a Plan; all "
        "nine reported arrays are compared with the formula (infinities exactly), a value outside a finite bound must have a positive violation, and "
        "'last' trackers with tolerances None/0/1e-10/0.25/5 must accept exactly the results whose violations are within the tolerance.",
        "1e-9 relative tolerance; tracker acceptance only judged without transforms and away from the tolerance boundary.",
        "DESIGN.md §3 C13",
    ),
    "C06": (
        "exploration",
        "Hypothesis over call histories with recording / garbage-filling / memoizing evaluators; trace validity predicate, metamorphic garbage relation, deep-copy aliasing oracle",
        "Random ensembles with zero weights, filters, all three transform kinds and evaluation_info, driven through histories of 1-4 calculate() calls "
        "(function batches, split and combined gradients): every evaluator call must request exactly the needed (vector|perturbation, realization) "
        "rows once with correct labels and user-domain variables, every reported value must be the transformed value returned for the row with that "
        "label, activity flags (per function and the per-realization summary) must agree with the weights in force, two runs differing only in the "
        "garbage returned for inactive entries must report identical functions/gradients/weights/flags, the evaluator's (possibly memoized) result "
        "object and arrays must be untouched, and every array of every delivered result must stay byte-identical and read-only after the harness "
        "overwrites its own arrays.",
        "No NaN failures here (C03); 'reported result' of the garbage relation excludes the raw per-realization arrays; 1e-12 relative row matching.",
        "DESIGN.md §3 C06",
    ),
    "C18": (
        "exploration",
        "Hypothesis strategy over valid (and deliberately inconsistent) configuration dictionaries; canonical-form formulas, generic frozen-ness walk, dump/JSON round-trip oracle",
        "Random configuration dictionaries touching every field of every sub-config (scalars to broadcast, un-normalised and mixed-sign weights, "
        "thresholds above the counts, relative perturbations, sampler/filter/estimator maps, optimizer options as dict/list/None, transforms in the "
        "validation context): the validated object is compared with the canonical form by formula, every reachable model must reject setattr and every "
        "reachable array must be read-only and reject in-place writes (also on the re-validated copies), validate(cfg) must be cfg, and validating the "
        "dumped dict and its JSON form must reproduce cfg field by field; inconsistent bounds/shapes must be rejected.",
        "Dumped forms are re-validated without context (as the external hand-off does); plain option dicts/lists are not required to be frozen.",
        "DESIGN.md §3 C18",
    ),
    "C19": (
        "model_checking",
        "exhaustive enumeration of registration sequences against an ordered-list reference registry with full observation after every step; Hypothesis rule-based state machine for long histories",
        "All sequences of up to 3 (quick) / 5 (thorough) add_plugin operations (3 fake plug-ins with overlapping method sets, one non-discoverable, case "
        "variants, a name clash, normal/prioritized) on two managers for type 'optimizer' and up to 2 for the other five types; after every step all 16 "
        "lookups (get_plugin and is_supported; bare, plugin/method, unknown) and plugins() order are compared on both managers with the model, so "
        "stale caches, case handling, discovery flags, duplicate rejection and cross-manager leakage are decided for every reachable registry state in "
        "the bound; a state machine adds 40-step random histories with interleaved lookups.",
        "The initial registry of a fresh manager is the model's baseline; fake plug-ins lower-case method names like the built-in ones.",
        "DESIGN.md §3 C19",
    ),
    "C12": (
        "model_checking",
        "exhaustive enumeration of event histories against a reference model checked after every event; Hypothesis for multi-result events, resets and real optimizer runs replayed against their own event stream",
        "All histories of length <=3 (quick) / <=4 and <=5 on a reduced alphabet (thorough) over 22 result kinds (objective NaN/1/2/2'/3 x feasible/"
        "infeasible x tracked/foreign source, gradient result, result without functions) x {no transform, scaling, sign-flipping transform} x "
        "tolerance {None, 0, 1e-10, 0.5}, built exactly like the steps build FINISHED_EVALUATION events, observed by a 'best' and a 'last' tracker; "
        "after every event the held results must be what the reference model allows (optimizer-domain minimum over valid delivered results, most "
        "recent feasible one). Hypothesis adds events with several results, external resets, and real SLSQP / Nelder-Mead / differential-evolution "
        "runs (constraints, NaN results, maximization) whose BasicOptimizer.results must be the model's best of the recorded stream.",
        "Results are compared by identity or value; NaN-objective results are unconstrained for 'last'; ties may resolve either way.",
        "DESIGN.md §3 C12",
    ),
    "C11": (
        "exploration",
        "Hypothesis; differential oracle (same user-domain configuration evaluated with and without the transforms) + feasibility-equivalence predicate",
        "Random user-domain configurations (bounds, 0-3 linear constraints of all kinds with arbitrary non-zero rows, non-linear constraints, absolute "
        "and relative perturbations, all boundary types, injected design samples that may leave the bounds) evaluated with random positive variable "
        "scales/offsets and objective/constraint scales and again without: the rows handed to the evaluator, the user-domain variables, "
        "per-realization values, function values and all nine constraint difference/violation arrays must agree, 40 random points per case must be "
        "feasible in the user domain iff their images are feasible for the transformed bounds/linear constraints, and from(to(x)) = x.",
        "Linear scalers only; 1e-9 relative tolerance; weighted objective and gradients are not part of the statement and are not compared.",
        "DESIGN.md §3 C11",
    ),
    "C08": (
        "exploration",
        "exhaustive enumeration of constraint-kind combinations x methods x option variants + Hypothesis; captured scipy arguments evaluated by a feasibility-equivalence predicate and exact-derivative oracle",
        "The arguments the plug-in passes to scipy.optimize.minimize / differential_evolution are captured (module-level rebinding in the harness "
        "process) for every combination of constraint kinds of up to 2+2 (quick) / 3+3 (thorough) non-linear+linear constraints x all ten methods x "
        "options None/{}/dict/list x max_iterations, all variable-bound patterns x methods, and random coefficients, bounds, masks and fixed values: "
        "12 test points per case (random, on the equality manifold, just off it) must be feasible for the configured problem iff feasible for the "
        "handed Bounds/dict/object constraints, each normalized constraint's jac must equal the exact derivative of its fun, x0/bounds must have the "
        "free length, max_iterations must arrive as maxiter/maxfun, and kinds SciPy cannot handle for the method must be rejected.",
        "Affine constraint functions; rows touching fixed variables are not retained by design; margin 1e-9 with an ambiguity band that is skipped; "
        "back-end capability table taken from SciPy's documentation.",
        "DESIGN.md §3 C08",
    ),
    "C07": (
        "model_checking",
        "exhaustive enumeration of request sequences with the harness acting as the optimization algorithm (captured SciPy callables); truth-function / fresh-instance oracle and current-point model of callback invocations; Hypothesis for the full stack",
        "The callables the plug-in hands to SciPy are captured and driven directly: every sequence of up to 3 (quick) / 4 (thorough) requests over "
        "{objective, gradient, each normalized constraint value, each constraint Jacobian} x a pool of 3 points (two distinct, one equal copy; batches "
        "for vectorized DE) x speculative x split_evaluations x {none, non-linear, linear, both} constraints x {slsqp, l-bfgs-b, cobyla, nelder-mead, "
        "DE, vectorized DE}: every returned value must be the value at the requested point, the recorded callback invocations must never repeat a "
        "quantity at the current point, never ask gradients for gradient-free methods, never ask both kinds under split_evaluations, and speculative "
        "must not change any value. A Hypothesis layer runs the same grammar (length <=8, masks, several realizations) through Plan -> "
        "EnsembleOptimizer -> plug-in with a recording evaluator and compares with fresh EnsembleEvaluator values and evaluator-call counts.",
        "Pool points differ by much more than 1e-3(1+|x|); expected constraint values come from a fresh instance (normalization itself: C08).",
        "DESIGN.md §3 C07",
    ),
    "C09": (
        "exploration",
        "exhaustive enumeration of masks x methods x start modes + Hypothesis; trace validity predicate over evaluator rows, reported results and the vectors exchanged with SciPy",
        "Every mask for n<=4 x {slsqp, l-bfgs-b, nelder-mead, powell, cobyla, DE, vectorized DE, scripted request sequences} x start vector from the "
        "configuration or from run_step(variables=), nested plans (inner optimization owns the complementary mask) for slsqp/nelder-mead, and random "
        "initial values, 1-3 samplers assigned also to fixed variables, VariableScaler, several realizations: in every evaluator row (unperturbed and "
        "perturbed), every reported variables/perturbed_variables array and every vector SciPy sees, fixed entries must equal the start value (nested: "
        "the inner result last delivered / the value requested by the outer optimizer), fixed gradient entries must be exactly 0.0 and SciPy must only "
        "see free-length vectors (real SciPy runs with the objective wrapped).",
        "Exact equality without transforms, 8 ulp with a scaler; nested runs are generated without transforms (result domain of a nested plan is unspecified).",
        "DESIGN.md §3 C09",
    ),
    "C16": (
        "exploration",
        "Hypothesis over configurations and interference histories; differential oracle on bit-exact trace hashes (repeat run, fresh-interpreter run), metamorphic seed-change relation",
        "Random configurations (1-2 samplers of all six methods, shared or not, per-variable assignment, filters, estimators, masks, SLSQP or "
        "seeded differential evolution) are run, then 1-3 interfering actions happen (reseeding NumPy's global generator, other runs differing in seed, "
        "sampler or everything, with the plug-in manager / context / plan+step+validated config object fresh or reused), then the same configuration "
        "runs again; the evaluator itself reseeds and draws from the global generator at every call. The hash of the complete trace (every evaluator "
        "request with labels and activity flags, every array of every delivered result, exit code) must be identical, for a fraction of the cases also "
        "to the hash obtained in a fresh interpreter, and a run differing only in the seed must use different perturbations.",
        "Deterministic evaluator; same Python/NumPy/SciPy build for the fresh interpreter.",
        "DESIGN.md §3 C16",
    ),
    "C15": (
        "fault_enumeration",
        "exhaustive abort-point injection (every emission x receiver, every evaluator call) with the harness owning the schedule; grammar + exactly-once delivery model; Hypothesis for problem data",
        "For optimizer steps, evaluator steps, both two-step orders, nested plans and an inner plan reused under two outer plans, each plain, with "
        "evaluation failures and with a max_functions stop, for slsqp and nelder-mead: the unaborted run is recorded with two recording handlers "
        "(injected plan_handler plug-in) on every plan level and two observers on every event type, then USER_ABORT is raised at every "
        "(emission, receiver) pair and inside every evaluator call of that run. Every stream must satisfy the bracket grammar per step, every emission "
        "must reach own handlers, ancestor handlers, observers exactly once in that order, the aborted step must report USER_ABORT, the plan and its "
        "ancestors must be latched and a further step must raise PlanAborted.",
        "Runs are deterministic (fixed seeds) so the unaborted run enumerates the abort points; receivers after the aborting one miss that event.",
        "DESIGN.md §3 C15",
    ),
    "C14": (
        "fault_enumeration",
        "exhaustive fault-sequence injection (call index x failing row subset x thresholds x persistence) with exact exit-code prediction; budget sweep with prefix oracle; evaluator-exception injection; Hypothesis for filters/transforms/evaluator steps",
        "For slsqp (combined and split), nelder-mead, differential evolution and vectorized DE with R=P=2: every subset of the rows of every one of "
        "the first 6 evaluator calls returns NaN (from that call on, or only there) under every realization_min_success and "
        "perturbation_min_success; an independent model of the injected faults predicts which call must end the run, the exit code "
        "(TOO_FEW_REALIZATIONS iff such a call exists), that nothing is requested afterwards and that the failing results are delivered. The same "
        "fault sets run against all four filter kinds x both estimators x transforms with a consistency oracle on the delivered stream; every "
        "max_functions from 1 to the unconstrained length must give a bit-identical prefix, respect the budget (+ less than one DE batch) and "
        "report MAX_FUNCTIONS_REACHED iff stopped early; a ValueError and a custom exception raised by the evaluator at every call must reach the caller.",
        "Exact prediction only for mean estimator without filters; with filters/stddev the code must be documented and consistent with the stream.",
        "DESIGN.md §3 C14",
    ),
    "C20": (
        "fault_enumeration",
        "differential trace oracle (in-process vs external-process run) + crash-point injection with the harness owning the kill schedule at message granularity",
        "Eight configurations (slsqp plain / constrained+masked+speculative / relative perturbations with several samplers and split evaluations, "
        "nelder-mead with a budget stop, serial and vectorized differential evolution with NaN failures, a TOO_FEW_REALIZATIONS stop, a user abort) run "
        "in-process and through external/<method> must give identical evaluator requests (bitwise), delivered results and exit codes and leave no "
        "child process. The optimizer process is killed with SIGKILL and SIGTERM during evaluation j - immediately (parent then fails writing) and "
        "deferred (frozen, killed while the parent waits for the next request) - for j<3 of one configuration (quick) / every j<8 of four "
        "configurations (thorough), and the evaluator raises at evaluation j: the step must never report OPTIMIZER_STEP_FINISHED, must return within "
        "30 s, must leave no running child, and the evaluator's exception must reach the caller.",
        "Kill points at message granularity only; zombies are not 'running'; the 30 s bound is the only clock-based verdict (300x the poll interval).",
        "DESIGN.md §3 C20",
    ),
}

# additions made when the checks were strengthened after the second round of seeded changes (DESIGN.md §6.5)
ADDENDA = {
    "C12": " Variable-scaling transforms make the reported violations differ from the ones the tracker judges; real runs may end with TOO_FEW_REALIZATIONS after valid results. Objective values are shifted (+-1e10, 1e6) and scaled (1e-12, 1e12, 1e-3): near-ties at a large level are not ties. 'Slightly infeasible' results violate two constraint kinds (each within the tolerance); real runs may use a VariableScaler. Infinite objective values and Powell runs that start outside the bounds are included.",
    "C05": " Method names are written plain, plug-in qualified and in other case; windows outside the ensemble are enumerated under every spelling. A zero-weight objective with infinite values may be named in the sort list (exhaustively for n<=4).",
    "C17": " Variables without sampler next to several samplers and realization weights with zeros are generated. Method names in several spellings, and several samplers without an assignment (only the first one perturbs). gradient.merge_realizations is switched on for a third of the cases, and draws of 1100..4500 points are checked per QMC method.",
    "C06": " A third of the histories follow optimizer-like F,G,F,G patterns at moving points; evaluators that hand out write-protected views of persistent buffers, and x as a write-protected view, are included. Tiny non-zero realization weights (2e-9, 5e-13) are generated next to zeros. The stddev estimator and huge finite garbage (1e160) in inactive entries are included; evaluators may return Fortran-ordered, strided or float32 arrays. Monitored objectives (objective weight 0) are generated. Values next to the largest float with alternating sign are placed in inactive entries; integer-typed result arrays are included. The evaluator may go by the per-realization summary context.active.",
    "C01": " Functions are also obtained together with a gradient whose perturbations partly fail, and values with common offsets up to 1e8 and a small spread are generated (stddev tolerance relative to the spread). All-failed results must have one NaN per function (shape). An evaluator object that handled an evaluation with failures must report a later evaluation exactly as a fresh object does. An exhaustive grid covers every filter-index map of up to 2 objectives and 2 constraints over two filters, evaluated alone / with a gradient / in a batch; a third-party filter plug-in returning scores above one is included. Tolerances are relative to the spread / magnitude of the values, a sixth of the cases is in units of 1e-9.",
    "C02": " Per-variable sampler assignments next to masks are generated, fixed columns of the perturbed variables must equal x, and histories that differ in the fixed variables only are included. A quarter of the cases express the whole problem in units of 1e-9..1e6. A negative realization weight with positive sum is generated for unfiltered mean cases. Stddev cases may carry a large common offset (1e5..3e6) on one function. A shared design with staggered failures (another perturbation fails in every realization) is generated. Stddev cases get a failed realization in a third of the cases; monitored objectives (weight zero) are generated.",
    "C03": " Merged-realization estimation is included for mean/no-filter. Cells with +inf / -inf (also opposite signs in one row) are generated: an infinite value is a value, not a failure (flags and gates only). The quick tier enumerates three realizations; the objectives may sit alone on the estimator under test; without filters a realization with positive configured weight is never flagged inactive.",
    "C04": " Negative objective weights with a positive total are generated. Configurations with 2-3 CVaR filters (any flavours, with failures) are run end to end and every filter's row is checked on its own. Method names are written plain, plug-in qualified and in other case. A filter object may be asked several times with other values and failures. A maximised objective ranked alone is enumerated exhaustively for n<=4; zero-weight ranked objectives may hold infinite values.",
    "C07": " A second start() of the same plug-in instance on a changed problem must serve nothing from the first run (length <=2). The full-stack layer is also started with run_step(variables=), so that fixed entries differ from the configured initial values. Method names are also written plug-in qualified (scipy/<method>). The scripted algorithm owns one argument array per shape and overwrites it in place. The full-stack layer includes a point 4e-3 (1+|x|) away from another one and optimizer.tolerance values up to 0.05. The scripted algorithm overwrites every array it receives; full-stack DE cases include a point where every realization fails (+inf). For the other methods one realization fails at one pool point.",
    "C08": " Narrow two-sided bands (5e-4 wide at magnitude 100) with test points inside them and option dicts that carry their own maxiter/maxfun are included. Method names are written plain, as scipy/<method> and in upper case; integer variable types are generated (integrality flags of differential evolution must describe the free variables). max_functions may be configured next to max_iterations. Linear rows whose coefficients on fixed variables cancel in their sum are generated. With parallel differential evolution the constraint objects are evaluated for a population matrix and compared member by member. output_dir is set in a third of the cases.",
    "C09": " Relative perturbation types and unbounded (also fixed) variables are generated; configurations rejected at validation are counted. The mask is given as list, tuple, bool or int ndarray, and every nested inner run must start from the values last delivered. Start values a rounding error away from a bound and gradient evaluations in which every perturbation fails are included. Nested plans are also run with a VariableScaler; REAL / INTEGER variable types are generated. The inner tracker may keep its best result between inner runs; a delivered result must keep its variables. Scripted inner runs end 1e-9..1e-3 (relative) away from where they were started. Every result delivered by the nested plan is compared with its snapshot after the outer run. A scripted outer algorithm that comes back to earlier points runs over a scripted inner run whose result depends on its start.",
    "C10": " 1-3 samplers with per-variable assignment (unused samplers, variables without sampler), samplers that hand out the array they keep, and two consecutive evaluations are included. Perturbations are also requested alone after a function request at the same, a neighbouring (4e-6 relative) or a distant point; x may sit a rounding error inside a bound. REAL / INTEGER variable types are generated. Realization weights with zeros are generated. Negative magnitudes are generated. Injected samplers carry per-sampler shared flags.",
    "C11": " Scales-only and offsets-only variable scalers and the split path (function, then gradient-only) are included. Start points outside the bounds and failed realizations up to 'no function values' are included. BasicOptimizer is given the plain dictionary with and without transforms; the variables section may be handed in as a validated object. Default perturbation magnitudes, a CVaR filter on the ranked function and constraint scales of 1e9..1e12 (bounds that come close in the optimizer domain) are included. A scaler with a single 0-d factor is included.",
    "C13": " Scales-only and offsets-only variable scalers are included. A quarter of the cases place values of magnitude 1..1e6 on, or 1e-6..1e-4 (relative) inside / outside, a finite bound. Variable masks are generated, and the same point is also evaluated with functions and gradients in one call. The transforms object may have been used for a second configuration in between (known finding linear-diff-after-transform-reuse). The transforms object may also have been used for another configuration before the one that is run. Rows whose largest scaled coefficient is exactly one are generated for the 'transforms object used before' mode.",
    "C14": " SLSQP is run plain, with split_evaluations and speculative (functions and gradient in one evaluation). Faults can hit single vectors of a batch (each population member of vectorized differential evolution, vectors of an evaluator step). Evaluator exceptions include OSError types, with and without redirected optimizer output. A descriptor-count oracle decides that runs with redirected output leave no file descriptor open. When the budget equals what the run needs (all evaluations made and delivered as without a budget) the exit code must be the unconstrained one. The user-domain and optimizer-domain result lists of every evaluation must correspond item by item.",
    "C15": " A nested inner plan on its own OptimizerContext is included, and the outer step whose run contained the abort must itself report USER_ABORT. Aborted plans are also re-entered through their plan function, and a BasicOptimizer object with abort and results callbacks is run three times (exactly-once delivery per run). A nested plan function may run a second step; BasicOptimizer objects run every history of three runs over {finishes, aborted, evaluator raises}. The latch must be visible when the FINISHED event of the aborted step is delivered; a nested plan without handlers is followed by the outer tracker with FINISHED_EVALUATION unobserved. An observer may be registered between two steps of a plan; it must receive every later event. No START_*_STEP event of a plan in the aborted chain may follow the abort (also the next step run by a nested plan's function).",
    "C16": " An unrelated optimization may be executed from inside a callback of the run, and fresh-interpreter references use a different PYTHONHASHSEED (always for configurations with several QMC engines). Samplers are generated with default and explicit options (distribution parameters, unscrambled QMC). Every run disturbs NumPy's global generator differently from inside the evaluator. One 40 x 40 case per run and Generator-valued DE seeds in reused configuration objects are included. Seeds above 2**32 and 2**64 and sequences of integers are generated (differing by multiples of 2**32), configurations are also handed over as dictionaries that are validated anew per run (with garbage collection in between), and the same samplers are assigned the other way round in interfering runs. Interfering actions include an unrelated run that ends with a LinAlgError and a prioritized catch-all sampler plug-in registered on another context's own manager; contexts may set up their own default manager. The repeated run may happen with DEBUG logging switched on.",
    "C18": " Inconsistent shapes include single-column coefficient matrices and non-broadcastable bound vectors, with and without scaler offsets. All array fields are also handed in as ndarrays the caller overwrites afterwards, and every section as an already validated object that must stay unchanged. 'del' on fields of frozen objects must fail; matrices for 1-D fields and index arrays of the wrong length must be rejected. Indices beyond the configured filters / estimators / samplers must be rejected; the rejection of a consistent configuration is a violation. Sections validated on their own must be clamped / normalized as well; enumeration arrays given as matrices must be rejected. Sections that only repeat the defaults may be left out. Inverted bounds on a masked-out variable must be rejected.",
    "C19": " Lookups include method names that themselves contain a slash (external/scipy/<method>). One fake plug-in matches two of its method names case-sensitively. An entry-point plug-in installed under a mixed-case name exists for all six types. Requests whose plug-in part is another plug-in's method name, and non-ASCII plug-in names, are included. An unsupported request that raises anything but ConfigError is a violation. A plug-in may be registered under a name that is also one of its method names. The fake plug-ins log who is asked: an explicit request consults the named plug-in only; <name>/default requests are included.",
    "C20": " Configurations started with run_step(variables=) are included, and stand-in optimizer processes that follow the protocol die after 1 or 2 exchanged messages (no-hang clause before the first evaluation). A failing backend plug-in (exception with/without message, bare assert, exit status 3, after 0-3 evaluations) runs inside the optimizer process, and two configurations exchange messages larger than one pipe buffer. One configuration has 3000 variables (messages above the pipe capacity), one has path-valued options, one an evaluation that takes 11 s; the evaluator raises ValueError, OSError subclasses, KeyError and a custom exception. NumPy scalars as option values, KeyboardInterrupt / SystemExit from the evaluator, a run from the orphaned child of the importing process and the delimiter word inside a path option are included. An option value that cannot be serialised may end the run with an error but must not leave a process behind. The message layer is exercised on its own with every message length in a window around 1x..8x the pipe capacity; the process running the step is killed during an evaluation (the optimizer process must end by itself); non-ASCII directory and file names; a stand-in whose read end is gone before its request is answered, also with a 3000-variable configuration. Failing-backend scenarios are also run with PYTHONOPTIMIZE=1; NumPy booleans are among the option values. One optimizer object is started twice (first start ended by an evaluator exception); an output directory that does not exist is included.",
}

NOT_YET = "no check registered"


def main() -> None:
    props = [json.loads(line)["id"] for line in (ROOT / "properties.jsonl").read_text().splitlines() if line.strip()]
    checks = []
    for pid in props:
        if pid not in CHECKS:
            continue
        cat, tech, text, note, ref = CHECKS[pid]
        checks.append(
            {
                "property_id": pid,
                "quick_cmd": f"./check {pid} --tier quick",
                "thorough_cmd": f"./check {pid} --tier thorough",
                "evidence_file": f"evidence/{pid}.json",
                "replay_cmd_template": f"./check {pid} --replay {{path}}",
                "engine": "harness",
                "level_claimed": {"category": cat, "text": text + ADDENDA.get(pid, ""), "design_ref": ref},
                "level_note": note,
                "technique": tech,
            }
        )
    manifest = {
        "version": 1,
        "setup_cmd": "/venv/bin/python -c 'import hypothesis' 2>/dev/null || /venv/bin/pip install -q --no-index --find-links /opt/veriftools/wheels hypothesis",
        "hooks": {
            "guard": "ROPT_VERIF",
            "enable": "no source hooks exist: ropt is installed editable from /repo/src, ./check only exports ROPT_VERIF=1 (unused by ropt) and injects "
            "plug-ins/evaluators through the public API",
            "baseline_off_cmd": "cd /repo && /venv/bin/python -m pytest -ra -q -p no:cacheprovider --timeout=900 --continue-on-collection-errors",
            "source_commits": [],
            "add_only": True,
        },
        "engines": [
            {
                "name": "harness",
                "path": "harness/",
                "serves_properties": sorted(CHECKS),
                "kind_free_text": "property-based testing: Hypothesis strategies/state machines + exhaustive itertools enumeration sharded over 16 processes, "
                "explicit reference-model / differential / metamorphic oracles, shrunk failures saved as JSON replays",
            }
        ],
        "checks": checks,
        "notes": "Known findings: known_findings.txt (fixed: entries refer to 'fix:' commits in /repo). Seeded breakages: seeded/<id>/. "
        "VERIF_SEED selects the Hypothesis seeds; exhaustive tiers do not depend on it.",
        "not_applicable": [{"property_id": pid, "reason": NOT_YET} for pid in props if pid not in CHECKS],
    }
    (ROOT / "MANIFEST.json").write_text(json.dumps(manifest, indent=1) + "\n")


if __name__ == "__main__":
    main()
