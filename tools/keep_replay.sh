#!/bin/sh
# usage: tools/keep_replay.sh <patch.diff> <ID> <name>   -- run <ID> against a seeded change and keep the first shrunk failing case as a committed replay
cd /verif || exit 2
KEEP_NEW=1 tools/try_patch.sh "$1" "$2" | tail -2
f=$(ls replays/$2/new-*.json 2>/dev/null | head -1)
[ -n "$f" ] || { echo "no replay produced"; exit 1; }
n=$(ls replays/$2/r*.json 2>/dev/null | wc -l); n=$(printf "%02d" $((n+1)))
mv "$f" "replays/$2/r$n-$3.json"; rm -f replays/*/new-*.json
echo "kept replays/$2/r$n-$3.json"
