#!/bin/sh
# Quietness sweep: every check (quick tier) at several seeds; prints one line per run, and a summary of non-zero exits.
cd "$(dirname "$0")/.." || exit 2
[ -n "$VP_RUN_REPO" ] && export VERIF_ROPT_SRC="$VP_RUN_REPO/src"
fail=0
for seed in ${SEEDS:-1 2 3 7 11}; do
  for id in C01 C02 C03 C04 C05 C06 C07 C08 C09 C10 C11 C12 C13 C14 C15 C16 C17 C18 C19 C20; do
    out=$(VERIF_SEED=$seed ./check $id --tier "${TIER:-quick}" 2>&1); rc=$?
    echo "seed=$seed rc=$rc $(echo "$out" | grep -E "tier=" | tail -1)"
    if [ $rc -ne 0 ]; then fail=$((fail+1)); echo "$out" | grep -E "VIOLATION|HARNESS|^  " | head -5; fi
  done
done
echo "NONZERO=$fail"
