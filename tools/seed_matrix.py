#!/usr/bin/env python3
"""Run the quick checks against every seeded change: apply to /repo, run, undo.  Writes seeded/detection.json
and records the outcome in each seeded/<id>/meta.json.   usage: tools/seed_matrix.py [seed-dir-name ...]
"""

import json
import re
import subprocess
import sys
from pathlib import Path

import os

ROOT = Path(__file__).resolve().parent.parent
# MATRIX_WT=<scratch git worktree of /repo HEAD>: patch that copy instead of /repo itself (same checks through
# VERIF_ROPT_SRC), so that /repo stays free while the matrix runs; the default patches /repo.
TREE = os.environ.get("MATRIX_WT", "/repo")
if os.environ.get("MATRIX_WT"):  # runs against a patched scratch copy do not touch the committed evidence files
    os.environ.setdefault("VERIF_EVIDENCE_DIR", "/tmp/verif-matrix-evidence")
if TREE != "/repo":
    os.environ["VERIF_ROPT_SRC"] = TREE + "/src"
# seeded changes whose clause is decided by the check of a neighbouring property (tried when the own check stays quiet)
ALSO = {"C14-D": ["C15"], "C07-D": ["C02"], "C01-E": ["C05"], "C07-F": ["C03"], "C02-H": ["C06"], "C03-G": ["C14"],
        "C01-J": ["C18"], "C03-I": ["C01"], "C04-J": ["C01"], "C05-I": ["C01"], "C05-J": ["C01"], "C06-I": ["C01"], "C08-J": ["C07"],
        "C12-I": ["C15"], "C13-J": ["C12"], "C14-I": ["C05"], "C15-I": ["C14"], "C16-I": ["C19"],
        "C02-K": ["C06"], "C06-K": ["C02"], "C08-L": ["C07"], "C10-K": ["C18"], "C11-L": ["C13"], "C13-K": ["C11"], "C14-L": ["C01"],
        "C04-M": ["C01"], "C04-N": ["C01"], "C05-M": ["C06"], "C12-M": ["C15"],
        "C02-O": ["C06"], "C05-P": ["C03"], "C07-P": ["C08"], "C09-O": ["C10"], "C09-P": ["C10"], "C13-O": ["C12"], "C11-O": ["C13"],
        "C11-P": ["C09"],
        "C05-Q": ["C01"], "C07-Q": ["C11"], "C14-R": ["C18"], "C03-R": ["C06"], "C02-R": ["C06"], "C06-Q": ["C03"], "C12-R": ["C14"],
        "C13-Q": ["C12"], "C16-R": ["C20"]}


def sh(*cmd: str, timeout: int = 1800) -> subprocess.CompletedProcess:
    sys.stdout.flush()
    return subprocess.run(cmd, capture_output=True, text=True, timeout=timeout, check=False)


def main() -> int:
    if sh("git", "-C", TREE, "status", "--porcelain").stdout.strip():
        print(f"REFUSING: {TREE} has uncommitted changes")
        return 2
    if sys.argv[1:2] == ["--mutants"]:
        return mutants()
    names = sys.argv[1:] or sorted(p.name for p in (ROOT / "seeded").iterdir() if (p / "patch.diff").exists())
    path = ROOT / "seeded" / "detection.json"
    table = json.loads(path.read_text()) if path.exists() else {}
    head = sh("git", "-C", TREE, "rev-parse", "--short", "HEAD").stdout.strip()
    for name in names:
        sdir = ROOT / "seeded" / name
        patch = sdir / "patch.diff"
        prop = name.split("-")[0]
        entry = {"property": prop, "repo_head": head}
        meta0 = json.loads((sdir / "meta.json").read_text()) if (sdir / "meta.json").exists() else {}
        if meta0.get("retired"):  # a later fix: commit made this change harmless (it no longer breaks the property)
            entry["status"] = "retired"
            entry["reason"] = meta0["retired"]
            table[name] = entry
            print(name, "retired", flush=True)
            continue
        if sh("git", "-C", TREE, "apply", "--check", str(patch)).returncode != 0:
            entry["status"] = "patch does not apply to /repo HEAD"
            table[name] = entry
            print(name, entry["status"])
            continue
        sh("git", "-C", TREE, "apply", str(patch))
        try:
            for check_prop in [prop, *ALSO.get(name, [])]:
                res = sh(str(ROOT / "check"), check_prop, "--tier", "quick")
                out = res.stdout + res.stderr
                sigs = sorted(set(re.findall(r"^  ([A-Za-z0-9_:@./<>-]+): ", out, flags=re.M)))
                line = next((l for l in out.splitlines() if "tier=quick" in l), "")
                entry.update({"status": "detected" if res.returncode == 1 else ("MISSED" if res.returncode == 0 else "harness-error"),
                              "check": f"./check {check_prop} --tier quick", "exit": res.returncode, "signatures": sigs, "summary": line})
                if res.returncode == 1:
                    break
        finally:
            sh("git", "-C", TREE, "checkout", "--", ".")
            for f in (ROOT / "replays").glob("*/new-*.json"):
                f.unlink()
            if not os.environ.get("VERIF_EVIDENCE_DIR"):
                sh("git", "-C", str(ROOT), "checkout", "--", "evidence")  # evidence must describe the unchanged tree
        table[name] = entry
        print(name, entry["status"], entry.get("signatures"), flush=True)
        meta_path = sdir / "meta.json"
        meta = json.loads(meta_path.read_text()) if meta_path.exists() else {}
        meta["detection"] = entry
        notes = sdir / "notes.md"
        if notes.exists() and meta.get("needs_to_manifest") in (None, "see notes.md"):
            text = notes.read_text()
            m = re.search(r"(?is)(needs?[^\n]*manifest[^\n]*\n+)(.{20,600}?)(\n\n|\n#|$)", text)
            meta["needs_to_manifest"] = (m.group(2).strip() if m else "see notes.md")
        meta_path.write_text(json.dumps(meta, indent=1) + "\n")
    path.write_text(json.dumps(table, indent=1, sort_keys=True) + "\n")
    missed = [n for n, e in table.items() if e.get("status") not in ("detected", "retired")]
    print("not detected / not applicable:", missed)
    return 0


def mutants() -> int:
    """Same for mutants/<ID>/*.patch (re-introduced defects and hand-written mutations)."""
    table = {}
    for patch in sorted((ROOT / "mutants").glob("*/*.patch")):
        prop = patch.parent.name
        name = f"{prop}/{patch.name}"
        if sh("git", "-C", TREE, "apply", "--check", str(patch)).returncode != 0:
            table[name] = {"status": "patch does not apply to /repo HEAD"}
            print(name, table[name]["status"])
            continue
        sh("git", "-C", TREE, "apply", str(patch))
        try:
            res = sh(str(ROOT / "check"), prop, "--tier", "quick")
            out = res.stdout + res.stderr
            sigs = sorted(set(re.findall(r"^  ([A-Za-z0-9_:@./<>-]+): ", out, flags=re.M)))
            table[name] = {"status": "detected" if res.returncode == 1 else ("MISSED" if res.returncode == 0 else "harness-error"),
                           "exit": res.returncode, "signatures": sigs}
        finally:
            sh("git", "-C", TREE, "checkout", "--", ".")
            for f in (ROOT / "replays").glob("*/new-*.json"):
                f.unlink()
            if not os.environ.get("VERIF_EVIDENCE_DIR"):
                sh("git", "-C", str(ROOT), "checkout", "--", "evidence")
        print(name, table[name]["status"], table[name].get("signatures"), flush=True)
    (ROOT / "mutants" / "detection.json").write_text(json.dumps(table, indent=1, sort_keys=True) + "\n")
    print("not detected:", [n for n, e in table.items() if e["status"] != "detected"])
    return 0


if __name__ == "__main__":
    sys.exit(main())
