"""Plug-ins of every type, installed through entry points under the mixed-case name 'MyExt' (see the dist-info next to this file).

They support the single method 'ext-alpha' (matched case-insensitively) and are never asked to create anything.
"""

from ropt.plugins.function_estimator.base import FunctionEstimatorPlugin
from ropt.plugins.optimizer.base import OptimizerPlugin
from ropt.plugins.plan.base import PlanHandlerPlugin, PlanStepPlugin
from ropt.plugins.realization_filter.base import RealizationFilterPlugin
from ropt.plugins.sampler.base import SamplerPlugin


class _Mixin:
    tag = "MyExt"

    def create(self, *args, **kwargs):  # noqa: ANN002, ANN003, ANN201, ARG002
        msg = "not meant to be created"
        raise NotImplementedError(msg)

    def is_supported(self, method):  # noqa: ANN001, ANN201
        return method.lower() == "ext-alpha"

    def __repr__(self):  # noqa: ANN204
        return "EntryPoint(MyExt)"


class Opt(_Mixin, OptimizerPlugin):
    pass


class Smp(_Mixin, SamplerPlugin):
    pass


class Flt(_Mixin, RealizationFilterPlugin):
    pass


class Est(_Mixin, FunctionEstimatorPlugin):
    pass


class Hnd(_Mixin, PlanHandlerPlugin):
    pass


class Stp(_Mixin, PlanStepPlugin):
    pass
