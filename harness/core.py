"""Shared machinery: case collection, violations, known findings, hypothesis driver."""

from __future__ import annotations

import hashlib
import json
import os
import sys
import traceback
from collections import Counter
from pathlib import Path
from typing import Any, Callable

import numpy as np

ROOT = Path(__file__).resolve().parent.parent
ROPT_SRC = os.environ.get("VERIF_ROPT_SRC", "/repo/src")
MAX_SAMPLES = 4
MAX_STORED_VIOLATIONS = 12


# ----------------------------------------------------------------------------
# JSON helpers (numpy aware, NaN/inf preserved as strings)
# ----------------------------------------------------------------------------
def jsonable(obj: Any) -> Any:  # noqa: ANN401, PLR0911
    if isinstance(obj, dict):
        return {str(k): jsonable(v) for k, v in obj.items()}
    if isinstance(obj, (list, tuple)):
        return [jsonable(v) for v in obj]
    if isinstance(obj, (set, frozenset)):
        return sorted(jsonable(v) for v in obj)
    if isinstance(obj, np.ndarray):
        return jsonable(obj.tolist())
    if isinstance(obj, (np.bool_, bool)):
        return bool(obj)
    if isinstance(obj, (np.integer,)):
        return int(obj)
    if isinstance(obj, (float, np.floating)):
        f = float(obj)
        if f != f:  # noqa: PLR0124
            return "nan"
        if f in (float("inf"), float("-inf")):
            return "inf" if f > 0 else "-inf"
        return f
    if obj is None or isinstance(obj, (int, str)):
        return obj
    if hasattr(obj, "name") and hasattr(obj, "value"):
        return str(obj.name)
    return repr(obj)


def unjson(obj: Any) -> Any:  # noqa: ANN401
    """Inverse of jsonable for floats encoded as strings."""
    if isinstance(obj, dict):
        return {k: unjson(v) for k, v in obj.items()}
    if isinstance(obj, list):
        return [unjson(v) for v in obj]
    if obj == "nan":
        return float("nan")
    if obj == "inf":
        return float("inf")
    if obj == "-inf":
        return float("-inf")
    return obj


def case_hash(case: Any) -> str:  # noqa: ANN401
    return hashlib.blake2b(
        json.dumps(jsonable(case), sort_keys=True).encode(), digest_size=10
    ).hexdigest()


# ----------------------------------------------------------------------------
# Violations and known findings
# ----------------------------------------------------------------------------
class Violation(Exception):  # noqa: N818
    """An oracle failure: the property does not hold for `case`."""

    def __init__(self, signature: str, message: str, case: Any = None) -> None:  # noqa: ANN401
        super().__init__(f"[{signature}] {message}")
        self.signature = signature
        self.message = message
        self.case = case


class HarnessError(Exception):
    """Something is wrong with the harness itself (never a verdict)."""


def _load_known() -> dict[tuple[str, str], dict[str, Any]]:
    """Parse known_findings.txt.

    Lines:  known: property=<id> signature=<sig> :: <what fails>
            fixed: property=<id> <commit> <what failed>      (suppresses nothing)
    """
    known: dict[tuple[str, str], dict[str, Any]] = {}
    path = ROOT / "known_findings.txt"
    if path.exists():
        for raw in path.read_text().splitlines():
            line = raw.strip()
            if not line.startswith("known:"):
                continue
            head, _, what = line[len("known:"):].partition("::")
            fields = dict(tok.split("=", 1) for tok in head.split() if "=" in tok)
            known[(fields["property"], fields["signature"])] = {"what": what.strip()}
    return known


KNOWN = _load_known()


def ropt_exception_signature(exc: BaseException) -> str | None:
    """Signature `exc:<Type>@<file>:<function>` if the innermost frame is in ropt."""
    tb = traceback.extract_tb(exc.__traceback__)
    for frame in reversed(tb):
        fname = frame.filename
        if "/ropt/" in fname and "/harness/" not in fname and "/checks/" not in fname:
            rel = fname.split("/ropt/", 1)[1]
            return f"exc:{type(exc).__name__}@{rel}:{frame.name}"
        if "/harness/" in fname or "/checks/" in fname:
            return None
        # frames in numpy/scipy/pydantic called from ropt: keep looking outward
    return None


class Collector:
    """Per-shard statistics; mergeable across processes."""

    def __init__(self, prop: str) -> None:
        self.prop = prop
        self.evaluations = 0
        self.nontrivial: set[str] = set()
        self.samples: list[Any] = []
        self.classes: Counter[str] = Counter()
        self.violations: list[dict[str, Any]] = []
        self.violation_count = 0
        self.known: Counter[str] = Counter()
        self.extra: dict[str, Any] = {}
        self.errors: list[str] = []

    # -- cases ---------------------------------------------------------------
    def case(
        self,
        key: Any,  # noqa: ANN401
        *,
        nontrivial: bool,
        classes: tuple[str, ...] | list[str] = (),
        sample: Any | Callable[[], Any] = None,  # noqa: ANN401
    ) -> None:
        """Count one executed case. `key` identifies it (hashable / json-able)."""
        self.evaluations += 1
        for name in classes:
            self.classes[name] += 1
        if nontrivial:
            self.classes["nontrivial"] += 1
            digest = key if isinstance(key, str) and len(key) <= 24 else case_hash(key)
            if digest not in self.nontrivial:
                self.nontrivial.add(digest)
                if len(self.samples) < MAX_SAMPLES:
                    value = sample() if callable(sample) else sample
                    self.samples.append(jsonable(key if value is None else value))

    # -- violations ------------------------------------------------------------
    def is_known(self, signature: str) -> bool:
        return (self.prop, signature) in KNOWN

    def violation(self, signature: str, message: str, case: Any = None) -> bool:  # noqa: ANN401
        """Record a violation. Returns True if it is a listed known finding."""
        if self.is_known(signature):
            self.known[signature] += 1
            return True
        self.violation_count += 1
        same = sum(1 for v in self.violations if v["signature"] == signature)
        if same < 1 and len(self.violations) < MAX_STORED_VIOLATIONS:
            self.violations.append(
                {"signature": signature, "message": message, "case": jsonable(case)}
            )
        return False

    def merge(self, other: Collector) -> None:
        self.evaluations += other.evaluations
        self.nontrivial |= other.nontrivial
        for s in other.samples:
            if len(self.samples) < MAX_SAMPLES:
                self.samples.append(s)
        self.classes.update(other.classes)
        self.violation_count += other.violation_count
        for v in other.violations:
            same = sum(1 for w in self.violations if w["signature"] == v["signature"])
            if same < 1 and len(self.violations) < MAX_STORED_VIOLATIONS:
                self.violations.append(v)
        self.known.update(other.known)
        self.errors.extend(other.errors)
        for k, v in other.extra.items():
            if isinstance(v, bool):
                self.extra[k] = self.extra.get(k, True) and v
            elif isinstance(v, (int, float)):
                self.extra[k] = self.extra.get(k, 0) + v
            else:
                self.extra.setdefault(k, v)


# ----------------------------------------------------------------------------
# Hypothesis driver
# ----------------------------------------------------------------------------
def run_hypothesis(
    col: Collector,
    strategy: Any,  # noqa: ANN401
    body: Callable[[Any], None],
    *,
    seed: int,
    max_examples: int,
    shrink: bool = True,
) -> None:
    """Run `body(case)` over `strategy`.

    `body` raises Violation for an oracle failure. Known findings are counted and
    skipped so that the search continues behind them; an unknown one is shrunk
    by hypothesis and recorded.  Exceptions whose innermost frame lies in ropt are
    converted to violations (`exc:<Type>@file:func`), anything else is a harness
    error.
    """
    import hypothesis
    from hypothesis import HealthCheck, Phase, given, settings

    last: dict[str, Violation] = {}

    def guarded(case: Any) -> None:  # noqa: ANN401
        try:
            body(case)
        except Violation as v:
            if col.is_known(v.signature):
                col.known[v.signature] += 1
                return
            last["v"] = v
            raise
        except (HarnessError, hypothesis.errors.HypothesisException):
            raise
        except hypothesis.errors.UnsatisfiedAssumption:
            raise
        except Exception as exc:  # noqa: BLE001
            sig = ropt_exception_signature(exc)
            if sig is None:
                raise
            if col.is_known(sig):
                col.known[sig] += 1
                return
            v = Violation(sig, f"{type(exc).__name__}: {exc}", case)
            last["v"] = v
            raise v from exc

    phases = [Phase.explicit, Phase.generate] + ([Phase.shrink] if shrink else [])
    test = settings(
        max_examples=max_examples,
        database=None,
        deadline=None,
        derandomize=False,
        report_multiple_bugs=False,
        suppress_health_check=list(HealthCheck),
        phases=phases,
        print_blob=False,
    )(given(strategy)(guarded))
    test = hypothesis.seed(seed)(test)
    try:
        test()
    except Violation:
        v = last["v"]
        col.violation(v.signature, v.message, v.case)
    except hypothesis.errors.Unsatisfiable as exc:
        col.errors.append(f"hypothesis unsatisfiable: {exc}")
    except hypothesis.errors.Flaky:
        # The oracle failed on a generated case but not when the very same case was run again in this process: the
        # behaviour of the code under test depends on state left behind by earlier cases.  What the oracle saw is real.
        if "v" not in last:
            raise
        v = last["v"]
        col.violation(v.signature, v.message + " [not reproduced when the same case was run again in the same process: "
                      "the outcome depends on state left behind by earlier cases]", v.case)


def guard_call(col: Collector, case: Any, fn: Callable[[], None]) -> None:  # noqa: ANN401
    """Run an enumerated case; record violations and keep going."""
    try:
        fn()
    except Violation as v:
        col.violation(v.signature, v.message, v.case if v.case is not None else case)
    except HarnessError:
        raise
    except Exception as exc:  # noqa: BLE001
        sig = ropt_exception_signature(exc)
        if sig is None:
            raise
        col.violation(sig, f"{type(exc).__name__}: {exc}", case)


def check(cond: bool, signature: str, message: str, case: Any = None) -> None:  # noqa: ANN401, FBT001
    if not cond:
        raise Violation(signature, message, case)


def eprint(*args: Any) -> None:  # noqa: ANN401
    print(*args, file=sys.stderr, flush=True)
