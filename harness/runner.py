"""CLI:  python -m harness.runner <ID> [--tier quick|thorough] [--replay FILE].

A check module (checks/cNN_*.py) provides:

    ID, LEVEL, RULE, ASSUMPTIONS                  constants
    shards(tier, seed) -> list[picklable]          work items
    run_shard(item)    -> Collector                executed in a process pool
    replay(case)       -> None (raises Violation)  one case through the same oracle

Exit codes: 0 held / 1 violation (line `VIOLATION property=<id> replay=<path>`)
/ 2 harness error.
"""

from __future__ import annotations

import argparse
import importlib
import json
import multiprocessing as mp
import os
import sys
import time
import traceback
from pathlib import Path
from typing import Any

from .core import (
    KNOWN,
    ROOT,
    Collector,
    HarnessError,
    Violation,
    case_hash,
    eprint,
    jsonable,
    ropt_exception_signature,
    unjson,
)

MODULES = {
    "C01": "checks.c01_functions",
    "C02": "checks.c02_gradient",
    "C03": "checks.c03_failures",
    "C04": "checks.c04_cvar",
    "C05": "checks.c05_sort",
    "C06": "checks.c06_requests",
    "C07": "checks.c07_optimizer_values",
    "C08": "checks.c08_scipy_problem",
    "C09": "checks.c09_fixed_variables",
    "C10": "checks.c10_perturbations",
    "C11": "checks.c11_transforms",
    "C12": "checks.c12_tracker",
    "C13": "checks.c13_constraint_info",
    "C14": "checks.c14_exit_codes",
    "C15": "checks.c15_events",
    "C16": "checks.c16_reproducible",
    "C17": "checks.c17_samplers",
    "C18": "checks.c18_config",
    "C19": "checks.c19_plugins",
    "C20": "checks.c20_external",
}


def _run_shard_safe(args: tuple[str, Any]) -> Collector:
    modname, item = args
    mod = importlib.import_module(modname)
    try:
        return mod.run_shard(item)
    except Exception:  # noqa: BLE001
        col = Collector(mod.ID)
        col.errors.append(traceback.format_exc())
        return col


def _replay_one(mod: Any, case: Any, col: Collector, label: str) -> None:  # noqa: ANN401
    try:
        mod.replay(case)
    except Violation as v:
        col.violation(v.signature, f"(replay {label}) {v.message}", case)
    except HarnessError:
        raise
    except Exception as exc:  # noqa: BLE001
        sig = ropt_exception_signature(exc)
        if sig is None:
            raise
        col.violation(sig, f"(replay {label}) {type(exc).__name__}: {exc}", case)


def main() -> int:  # noqa: C901, PLR0912, PLR0915
    parser = argparse.ArgumentParser()
    parser.add_argument("prop")
    parser.add_argument("--tier", default=os.environ.get("VERIF_TIER", "quick"))
    parser.add_argument("--replay", default=None)
    parser.add_argument("--procs", type=int, default=int(os.environ.get("VERIF_PROCS", "16")))
    opts = parser.parse_args()
    prop = opts.prop.upper()
    tier = opts.tier if opts.tier in ("quick", "thorough") else "quick"
    seed = int(os.environ.get("VERIF_SEED", "1") or "1")

    import warnings

    import numpy as np

    warnings.simplefilter("ignore")
    np.seterr(all="ignore")
    import ropt

    src = os.environ.get("VERIF_ROPT_SRC", "/repo/src")
    if not str(Path(ropt.__file__).resolve()).startswith(str(Path(src).resolve())):
        eprint(f"HARNESS-ERROR: ropt imported from {ropt.__file__}, expected {src}")
        return 2

    if prop not in MODULES:
        eprint(f"HARNESS-ERROR: unknown property {prop}")
        return 2
    mod = importlib.import_module(MODULES[prop])
    start = time.time()
    total = Collector(prop)

    try:
        if opts.replay is not None:
            data = json.loads(Path(opts.replay).read_text())
            case = unjson(data.get("case", data))
            _replay_one(mod, case, total, Path(opts.replay).name)
            total.evaluations = max(total.evaluations, 1)
            return _finish(mod, total, tier, seed, start, write_evidence=False)

        # 1. committed regression inputs, bypassing the generators
        replay_dir = ROOT / "replays" / prop
        replayed = 0
        if replay_dir.is_dir():
            for path in sorted(replay_dir.glob("*.json")):
                if path.name.startswith("new-"):
                    continue
                data = json.loads(path.read_text())
                _replay_one(mod, unjson(data.get("case", data)), total, path.name)
                replayed += 1
        total.extra["replayed_regression_inputs"] = replayed

        # 2. generated search
        items = [(MODULES[prop], item) for item in mod.shards(tier, seed)]
        procs = max(1, min(opts.procs, len(items)))
        if procs == 1:
            results = [_run_shard_safe(it) for it in items]
        else:
            ctx = mp.get_context("fork")
            with ctx.Pool(procs) as pool:
                results = pool.map(_run_shard_safe, items, chunksize=1)
        for col in results:
            total.merge(col)
    except Exception:  # noqa: BLE001
        eprint("HARNESS-ERROR:", traceback.format_exc())
        return 2

    if total.errors:
        for err in total.errors[:3]:
            eprint("HARNESS-ERROR:", err)
        return 2
    return _finish(mod, total, tier, seed, start, write_evidence=True)


def _finish(  # noqa: PLR0913
    mod: Any,  # noqa: ANN401
    total: Collector,
    tier: str,
    seed: int,
    start: float,
    *,
    write_evidence: bool,
) -> int:
    prop = mod.ID
    for sig, count in sorted(total.known.items()):
        rec = KNOWN[(prop, sig)]
        print(f"KNOWN-FINDING: property={prop} {rec.get('what', sig)} [signature={sig}; hit {count}x]")

    replay_paths = []
    seen = set()
    for v in total.violations:
        if v["signature"] in seen:
            continue
        seen.add(v["signature"])
        out_dir = ROOT / "replays" / prop
        out_dir.mkdir(parents=True, exist_ok=True)
        path = out_dir / f"new-{case_hash([v['signature'], v['case']])}.json"
        path.write_text(
            json.dumps(
                {"property": prop, "signature": v["signature"], "message": v["message"], "case": v["case"]},
                indent=1,
            )
        )
        replay_paths.append((v, path))

    wall = time.time() - start
    if write_evidence:
        coverage: dict[str, Any] = {
            "evaluations": total.evaluations,
            "distinct_nontrivial": len(total.nontrivial),
            "rule": mod.RULE,
            "samples": total.samples if total.samples else [],
            "class_histogram": dict(sorted(total.classes.items())),
            "known_findings_excluded": dict(sorted(total.known.items())),
        }
        coverage.update(jsonable(total.extra))
        evidence = {
            "property_id": prop,
            "tier": tier,
            "seed": seed,
            "level": mod.LEVEL,
            "coverage": coverage,
            "assumptions": list(mod.ASSUMPTIONS),
            "wall_s": round(wall, 3),
            "violations": total.violation_count,
        }
        # (tooling that runs the checks against patched scratch copies of the repository keeps its evidence elsewhere)
        ev_dir = Path(os.environ["VERIF_EVIDENCE_DIR"]) if os.environ.get("VERIF_EVIDENCE_DIR") else ROOT / "evidence"
        ev_dir.mkdir(parents=True, exist_ok=True)
        (ev_dir / f"{prop}.json").write_text(json.dumps(evidence, indent=1) + "\n")

    print(
        f"{prop} tier={tier} seed={seed}: {total.evaluations} cases, "
        f"{len(total.nontrivial)} distinct non-trivial, "
        f"{total.violation_count} violations, {sum(total.known.values())} known-finding hits, "
        f"{wall:.1f}s"
    )
    if replay_paths:
        for v, path in replay_paths:
            print(f"  {v['signature']}: {v['message'][:300]}")
            print(f"VIOLATION property={prop} replay={path}")
        return 1
    if write_evidence and len(total.nontrivial) < 2:  # noqa: PLR2004
        eprint("HARNESS-ERROR: fewer than 2 distinct non-trivial cases were generated")
        return 2
    return 0


if __name__ == "__main__":
    sys.exit(main())
