"""A deliberately failing optimizer backend, discoverable by the parent and by the external optimizer process.

Method names: verif-<kind>-<after>: evaluate <after> points, then
  empty   -> raise RuntimeError()          (an exception without a message)
  assert  -> a failing bare assert         (likewise)
  message -> raise ValueError("boom 42")
  exit3   -> os._exit(3)                   (the process dies without reporting anything)
  finish  -> return normally
"""

import os

import numpy as np

from ropt.plugins.optimizer.base import Optimizer, OptimizerPlugin


class FailingOptimizer(Optimizer):
    def __init__(self, config, optimizer_callback):  # noqa: ANN001, D107
        self._config = config
        self._callback = optimizer_callback
        kind, after = config.optimizer.method.lower().rsplit("/", 1)[-1][len("verif-"):].rsplit("-", 1)
        self._kind, self._after = kind, int(after)

    def start(self, initial_values):  # noqa: ANN001, ANN201
        x = np.array(initial_values, dtype=np.float64)
        for k in range(self._after):
            self._callback(x + 0.125 * k, return_functions=True, return_gradients=(k % 2 == 1))
        if self._kind == "empty":
            raise RuntimeError
        if self._kind == "assert":
            assert self._after < 0  # noqa: S101
        if self._kind == "message":
            msg = "boom 42"
            raise ValueError(msg)
        if self._kind == "exit3":
            if os.environ.get("C20VERIF_IN_PARENT") == str(os.getpid()):
                msg = "exit3 is only meant for the external process"
                raise RuntimeError(msg)
            os._exit(3)

    @property
    def allow_nan(self):  # noqa: ANN201
        return False

    @property
    def is_parallel(self):  # noqa: ANN201
        return False


class FailingPlugin(OptimizerPlugin):
    def create(self, config, optimizer_callback):  # noqa: ANN001, ANN201
        return FailingOptimizer(config, optimizer_callback)

    def is_supported(self, method):  # noqa: ANN001, ANN201
        return method.lower().startswith("verif-")
