"""Capture what the SciPy plug-in hands to scipy.optimize (harness side only, no repo change).

The plug-in module binds the names `minimize` and `differential_evolution` at import
time; rebinding those two module attributes in the harness process intercepts the
call without touching ropt.  `driver(captured)` may be supplied to act as the
optimization algorithm (issue requests in any order).
"""

from __future__ import annotations

from contextlib import contextmanager
from typing import Any, Callable, Iterator

import ropt.plugins.optimizer.scipy as scipy_plugin


class Captured:
    def __init__(self) -> None:  # noqa: D107
        self.kind: str | None = None
        self.kwargs: dict[str, Any] = {}
        self.shapes: list[tuple[int, ...]] = []  # (len(x0), *x.shape) of every objective call
        self.result: Any = None


def _passthrough(orig: Any, captured: Captured, kwargs: dict[str, Any], name: str) -> Any:  # noqa: ANN401
    inner = kwargs[name]

    def wrapped(x: Any, *a: Any) -> Any:  # noqa: ANN401
        captured.shapes.append((len(kwargs["x0"]), *tuple(getattr(x, "shape", ()))))
        return inner(x, *a)

    kw = dict(kwargs)
    kw[name] = wrapped
    captured.result = orig(**kw)
    return captured.result


@contextmanager
def capture(driver: Callable[[Captured], None] | None = None, *, passthrough: bool = False) -> Iterator[Captured]:
    """With passthrough the real SciPy function runs, with the objective wrapped to record argument shapes."""
    captured = Captured()
    orig_min, orig_de = scipy_plugin.minimize, scipy_plugin.differential_evolution

    def fake_minimize(*args: Any, **kwargs: Any) -> Any:  # noqa: ANN401
        assert not args
        captured.kind = "minimize"
        captured.kwargs = kwargs
        if driver is not None:
            driver(captured)
        if passthrough:
            return _passthrough(orig_min, captured, kwargs, "fun")
        return None

    def fake_de(*args: Any, **kwargs: Any) -> Any:  # noqa: ANN401
        assert not args
        captured.kind = "differential_evolution"
        captured.kwargs = kwargs
        if driver is not None:
            driver(captured)
        if passthrough:
            return _passthrough(orig_de, captured, kwargs, "func")
        return None

    scipy_plugin.minimize = fake_minimize  # type: ignore[assignment]
    scipy_plugin.differential_evolution = fake_de  # type: ignore[assignment]
    try:
        yield captured
    finally:
        scipy_plugin.minimize = orig_min  # type: ignore[assignment]
        scipy_plugin.differential_evolution = orig_de  # type: ignore[assignment]
