"""Helpers around ropt's *public* API: configs, injected plug-ins, evaluators."""

from __future__ import annotations

from typing import Any, Callable

import numpy as np
from numpy.typing import NDArray

from ropt.config.enopt import EnOptConfig
from ropt.evaluator import EvaluatorContext, EvaluatorResult
from ropt.plugins import PluginManager
from ropt.plugins.sampler.base import Sampler, SamplerPlugin


# ----------------------------------------------------------------------------
# Injected deterministic "design" sampler (public add_plugin API)
# ----------------------------------------------------------------------------
class DesignSampler(Sampler):
    def __init__(  # noqa: D107
        self,
        enopt_config: EnOptConfig,
        sampler_index: int,
        mask: NDArray[np.bool_] | None,
        rng: Any,  # noqa: ANN401, ARG002
        plugin: DesignSamplerPlugin,
    ) -> None:
        self._config = enopt_config
        self._index = sampler_index
        self._mask = mask
        self._plugin = plugin
        self._kept: dict[int, NDArray[np.float64]] = {}

    def generate_samples(self) -> NDArray[np.float64]:
        plugin = self._plugin
        seq = plugin.samples
        index = min(plugin.calls, len(seq) - 1)
        plugin.calls += 1
        if plugin.nocopy:
            # a sampler that keeps its design and hands out the very same array on every call
            if index not in self._kept:
                base = np.array(seq[index], dtype=np.float64)
                self._kept[index] = base if self._mask is None else np.where(self._mask, base, 0.0)
            return self._kept[index]
        samples = np.array(seq[index], dtype=np.float64)
        if self._mask is not None:
            samples = np.where(self._mask, samples, 0.0)
        return samples


class DesignSamplerPlugin(SamplerPlugin):
    """`samples` is a list of (R, P, n) arrays used for consecutive calls."""

    def __init__(self, samples: list[NDArray[np.float64]] | None = None, *, nocopy: bool = False) -> None:  # noqa: D107
        self.samples: list[NDArray[np.float64]] = samples or []
        self.calls = 0
        self.nocopy = nocopy

    def create(self, enopt_config: EnOptConfig, sampler_index: int, mask: Any, rng: Any) -> DesignSampler:  # noqa: ANN401
        return DesignSampler(enopt_config, sampler_index, mask, rng, self)

    def is_supported(self, method: str) -> bool:
        return method.lower() == "fixed"


def manager_with_design(samples: list[NDArray[np.float64]]) -> tuple[PluginManager, DesignSamplerPlugin]:
    manager = PluginManager()
    plugin = DesignSamplerPlugin(samples)
    manager.add_plugin("sampler", "design", plugin)
    return manager, plugin


# ----------------------------------------------------------------------------
# Evaluators
# ----------------------------------------------------------------------------
class AffineEvaluator:
    """f[r,k](x) = A[r,k,:].x + b[r,k] in the user domain; records every call.

    fail: dict (r, p) -> list of ("obj"|"con", column) entries that are NaN
          (p == -1 for the unperturbed row); optionally keyed (call, r, p) or
          (call, r, p, j) for the j-th vector of a batch only.
    garbage: value (or callable(call,row,kind,col)) written into inactive entries.
    quad: optional curvature so that the function is not affine: + q * |x|^2.
    """

    def __init__(  # noqa: PLR0913
        self,
        a_obj: NDArray[np.float64],
        b_obj: NDArray[np.float64],
        a_con: NDArray[np.float64] | None = None,
        b_con: NDArray[np.float64] | None = None,
        *,
        fail: dict[tuple[int, ...], list[tuple[str, int]]] | None = None,
        garbage: float | Callable[..., float] | None = None,
        quad: float = 0.0,
        info: bool = False,
    ) -> None:
        self.a_obj = np.asarray(a_obj, dtype=np.float64)
        self.b_obj = np.asarray(b_obj, dtype=np.float64)
        self.a_con = None if a_con is None else np.asarray(a_con, dtype=np.float64)
        self.b_con = None if b_con is None else np.asarray(b_con, dtype=np.float64)
        self.fail = fail or {}
        self.garbage = garbage
        self.quad = quad
        self.info = info
        # True: the evaluator goes by the per-realization summary `context.active` (it skips a realization altogether when that says
        # so, whatever the per-function matrices say) - the documented coarse way of using the activity information
        self.use_summary = False
        self.calls: list[dict[str, Any]] = []
        self.hook: Callable[[int, NDArray[np.float64], EvaluatorContext], None] | None = None

    def value(self, kind: str, r: int, col: int, x: NDArray[np.float64]) -> float:
        a = self.a_obj if kind == "obj" else self.a_con
        b = self.b_obj if kind == "obj" else self.b_con
        assert a is not None
        assert b is not None
        return float(a[r, col] @ x + b[r, col] + self.quad * float(x @ x))

    def __call__(self, variables: NDArray[np.float64], context: EvaluatorContext) -> EvaluatorResult:
        call = len(self.calls)
        if self.hook is not None:
            self.hook(call, variables, context)
        rows = variables.shape[0]
        reals = np.asarray(context.realizations)
        perts = np.full(rows, -1) if context.perturbations is None else np.asarray(context.perturbations)
        k_n = self.a_obj.shape[1]
        c_n = 0 if self.a_con is None else self.a_con.shape[1]
        obj = np.zeros((rows, k_n))
        con = np.zeros((rows, c_n)) if c_n else None
        seen: dict[tuple[int, int], int] = {}
        for i in range(rows):
            r, p = int(reals[i]), int(perts[i])
            occurrence = seen.get((r, p), 0)  # j-th row of this call with label (r, p): the j-th vector of a batch
            seen[(r, p)] = occurrence + 1
            x = variables[i]
            skipped = self.use_summary and context.active is not None and not bool(context.active[r])
            for k in range(k_n):
                active = (context.active_objectives is None or bool(context.active_objectives[k, r])) and not skipped
                if active or self.garbage is None:
                    obj[i, k] = self.value("obj", r, k, x)
                else:
                    obj[i, k] = self.garbage(call, i, "obj", k) if callable(self.garbage) else self.garbage
            for c in range(c_n):
                assert con is not None
                active = (context.active_constraints is None or bool(context.active_constraints[c, r])) and not skipped
                if active or self.garbage is None:
                    con[i, c] = self.value("con", r, c, x)
                else:
                    con[i, c] = self.garbage(call, i, "con", c) if callable(self.garbage) else self.garbage
            for key in ((r, p), (call, r, p), (call, r, p, occurrence)):
                for kind, col in self.fail.get(key, ()):
                    if kind == "obj":
                        obj[i, col] = np.nan
                    elif con is not None:
                        con[i, col] = np.nan
        record = {
            "variables": np.array(variables, copy=True),
            "realizations": reals.copy(),
            "perturbations": perts.copy(),
            "has_perturbations": context.perturbations is not None,
            "active_objectives": None if context.active_objectives is None else np.array(context.active_objectives),
            "active_constraints": None if context.active_constraints is None else np.array(context.active_constraints),
            "active": None if context.active is None else np.array(context.active),
            "objectives": obj.copy(),
            "constraints": None if con is None else con.copy(),
            "config": context.config,
        }
        self.calls.append(record)
        info = {"tag": np.arange(rows, dtype=np.float64) + 1000.0 * call} if self.info else {}
        result = EvaluatorResult(objectives=obj, constraints=con, evaluation_info=info)
        record["returned"] = result
        return result


# ----------------------------------------------------------------------------
# Config helpers
# ----------------------------------------------------------------------------
def validate(config: dict[str, Any], transforms: Any = None) -> EnOptConfig:  # noqa: ANN401
    return EnOptConfig.model_validate(config, context=transforms)


def fl(values: Any) -> list[float]:  # noqa: ANN401
    return [float(v) for v in np.asarray(values, dtype=np.float64).ravel()]


# ----------------------------------------------------------------------------
# Linear scaling transforms for objectives and non-linear constraints
# ----------------------------------------------------------------------------
from ropt.transforms.base import NonLinearConstraintTransform, ObjectiveTransform  # noqa: E402


class ObjectiveScaler(ObjectiveTransform):
    """objectives_opt = objectives_user / scales; a negative scale flips the sign (maximization)."""

    def __init__(self, scales: Any, *, flip_weighted: bool = False) -> None:  # noqa: ANN401, D107
        self._scales = np.asarray(scales, dtype=np.float64)
        self._flip = flip_weighted

    def to_optimizer(self, objectives: NDArray[np.float64]) -> NDArray[np.float64]:
        return objectives / self._scales

    def from_optimizer(self, objectives: NDArray[np.float64]) -> NDArray[np.float64]:
        return objectives * self._scales

    def weighted_objective_from_optimizer(self, weighted_objective: NDArray[np.float64]) -> NDArray[np.float64]:
        return -weighted_objective if self._flip else weighted_objective


class ConstraintScaler(NonLinearConstraintTransform):
    """constraints_opt = constraints_user / scales (positive scales)."""

    def __init__(self, scales: Any) -> None:  # noqa: ANN401, D107
        self._scales = np.asarray(scales, dtype=np.float64)

    def bounds_to_optimizer(self, lower_bounds: NDArray[np.float64], upper_bounds: NDArray[np.float64]) -> tuple[Any, Any]:
        return lower_bounds / self._scales, upper_bounds / self._scales

    def to_optimizer(self, constraints: NDArray[np.float64]) -> NDArray[np.float64]:
        return constraints / self._scales

    def from_optimizer(self, constraints: NDArray[np.float64]) -> NDArray[np.float64]:
        return constraints * self._scales

    def nonlinear_constraint_diffs_from_optimizer(self, lower_diffs: NDArray[np.float64], upper_diffs: NDArray[np.float64]) -> tuple[Any, Any]:
        return lower_diffs * self._scales, upper_diffs * self._scales
